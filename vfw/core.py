"""Core of the framework: per-shard context, violation type, Hypothesis drivers.

A *case* is always a JSON-able dict with a key ``part`` naming the sub-check of
the property that produced it, so that a replay file can be dispatched without
Hypothesis.  ``check(case, ctx)`` functions are pure functions of the case and
the code under test; they raise :class:`Violation` when the property fails.
"""
from __future__ import annotations

import hashlib
import json
import os
import shutil
import sys
import tempfile
import time
import traceback
from collections import Counter
from typing import Any, Callable

VERIF = os.path.dirname(os.path.dirname(os.path.abspath(__file__)))
REPLAY_DIR = os.path.join(VERIF, "replay")
FOUND_DIR = os.path.join(REPLAY_DIR, "found")
EVIDENCE_DIR = os.path.join(VERIF, "evidence")
KNOWN_FILE = os.path.join(VERIF, "known_findings.json")


class Violation(AssertionError):
    """The property under check does not hold for the current case."""


class HarnessError(RuntimeError):
    """Something is wrong with the machinery itself (exit code 2)."""


def canon(obj: Any) -> str:
    return json.dumps(obj, sort_keys=True, separators=(",", ":"), default=_json_default)


def _json_default(o):
    import numpy as np

    if isinstance(o, (np.integer,)):
        return int(o)
    if isinstance(o, (np.floating,)):
        return float(o)
    if isinstance(o, np.ndarray):
        return o.tolist()
    if isinstance(o, (set, frozenset)):
        return sorted(o)
    if isinstance(o, bytes):
        return o.decode("latin-1")
    raise TypeError(f"not JSON-able: {type(o)}")


def digest(obj: Any) -> str:
    return hashlib.sha1(canon(obj).encode()).hexdigest()[:16]


def load_known() -> list[dict]:
    if not os.path.exists(KNOWN_FILE):
        return []
    with open(KNOWN_FILE) as f:
        return json.load(f)["findings"]


def call(what: str, fn: Callable, *args, **kwargs):
    """Call code under test; any exception on a valid input is a violation."""
    try:
        return fn(*args, **kwargs)
    except Violation:
        raise
    except Exception as e:  # noqa: BLE001 - deliberate: contract is "must succeed"
        tb = traceback.extract_tb(e.__traceback__)
        where = ""
        for fr in reversed(tb):
            if "/cooler/" in fr.filename:
                where = f" at {os.path.basename(fr.filename)}:{fr.lineno}"
                break
        raise Violation(f"{what} raised {type(e).__name__}: {str(e)[:300]}{where}") from e


def as_violation(e: BaseException):
    """An exception that escaped from a check without passing through ``call``: if a frame of its traceback lies in
    the cooler package under test, the library raised on an input the check treats as valid - a violation, not a
    harness error.  Returns a Violation or None (exception raised by the harness itself, by Hypothesis, ...)."""
    if isinstance(e, Violation) or not isinstance(e, Exception) or type(e).__module__.startswith("hypothesis"):
        return None
    for fr in reversed(traceback.extract_tb(e.__traceback__)):
        fn = fr.filename.replace("\\", "/")
        if "/cooler/" in fn and "/vfw/" not in fn:
            return Violation(f"the library raised {type(e).__name__}: {str(e)[:300]} at {os.path.basename(fn)}:{fr.lineno}")
    # the harness itself touches HDF5 only to read what the code under test wrote: a dataset, group or attribute that
    # the schema requires and that cannot be read is a finding about the file, not about the harness
    tb = traceback.extract_tb(e.__traceback__)
    if tb and "h5py" in tb[-1].filename:
        where = next((f"{os.path.basename(fr.filename)}:{fr.lineno}" for fr in reversed(tb) if "/vfw/" in fr.filename), "")
        return Violation(f"an HDF5 object that the check reads from the file under test is missing or unreadable: "
                         f"{type(e).__name__}: {str(e)[:200]} (read at {where})")
    return None


def must_raise(what: str, fn: Callable, *args, **kwargs) -> Exception:
    """Call code under test that is required to refuse its input."""
    try:
        fn(*args, **kwargs)
    except Violation:
        raise
    except Exception as e:  # noqa: BLE001 - any Exception subclass counts as refusal
        return e
    raise Violation(f"{what} was accepted but must be refused")


def check(cond: bool, msg: str | Callable[[], str]):
    if not cond:
        raise Violation(msg() if callable(msg) else msg)


class Ctx:
    """Per-shard bookkeeping: evidence counters, failure capture, scratch."""

    def __init__(self, pid: str, tier: str, seed: int, shard: int, nshards: int,
                 budget_s: float, replay_mode: bool = False):
        self.pid = pid
        self.tier = tier
        self.seed = seed
        self.shard = shard
        self.nshards = nshards
        self.t0 = time.time()
        self.budget_s = budget_s
        self.deadline = self.t0 + budget_s
        self.replay_mode = replay_mode
        self.evaluations = 0
        self.nontrivial: dict[str, int] = {}
        self.classes: Counter = Counter()
        self.samples: list = []
        self.sample_quota = 3
        self._samples_per_part: Counter = Counter()
        self.excluded_known: Counter = Counter()
        self.known_cases: dict[str, Any] = {}
        self.violations: list[dict] = []
        self.budget_exhausted = False
        self.exhaustive_subdomains: dict[str, int] = {}
        self.notes: list[str] = []
        self.known = {e["key"]: e for e in load_known()
                      if e.get("property") == pid and e.get("status") == "known"}
        # failure capture during Hypothesis shrinking
        self.best_failure: tuple[Any, str] | None = None
        self.first_failure_t: float | None = None
        self.shrink_budget_s = 25.0 if tier == "quick" else 120.0
        self._scratch: str | None = None
        self._tmp_n = 0
        self._case_n = 0
        self._in_case = False

    # -- scratch ---------------------------------------------------------
    @property
    def scratch(self) -> str:
        if self._scratch is None:
            base = os.environ.get("VERIF_SCRATCH")
            if not base:
                base = "/dev/shm" if os.path.isdir("/dev/shm") and os.access("/dev/shm", os.W_OK) \
                    else tempfile.gettempdir()
            self._scratch = tempfile.mkdtemp(prefix=f"vfw-{self.pid}-{self.shard}-", dir=base)
        return self._scratch

    def begin_case(self):
        """Scratch names are RECYCLED from case to case: the k-th scratch path of every case of a shard is the same
        path (t<k><suffix>), so every case is also a 'second use of the same path in one process' history.  A library
        that keeps state keyed by file name, URI or BINS argument across calls shows up as an ordinary content mismatch.
        Leftovers of the previous case are removed first, so a case never sees another case's files."""
        if self._scratch is not None and self._in_case:
            for name in os.listdir(self._scratch):
                if name.startswith("t"):
                    self.clean(os.path.join(self._scratch, name))
        self._in_case = True
        self._case_n = 0

    def tmp(self, suffix: str = "") -> str:
        if self._in_case and os.environ.get("VERIF_UNIQUE_PATHS") != "1":
            self._case_n += 1
            p = os.path.join(self.scratch, f"t{self._case_n}{suffix}")
            if os.path.lexists(p):
                self.clean(p)
            return p
        self._tmp_n += 1
        return os.path.join(self.scratch, f"r{self._tmp_n}{suffix}")

    def tmpdir(self) -> str:
        p = self.tmp()
        os.makedirs(p)
        return p

    def clean(self, *paths):
        for p in paths:
            try:
                if os.path.isdir(p) and not os.path.islink(p):
                    shutil.rmtree(p, ignore_errors=True)
                elif os.path.lexists(p):
                    os.remove(p)
            except OSError:
                pass

    def cleanup(self):
        if self._scratch is not None:
            shutil.rmtree(self._scratch, ignore_errors=True)
            self._scratch = None

    # -- evidence --------------------------------------------------------
    def expired(self) -> bool:
        if time.time() > self.deadline:
            self.budget_exhausted = True
            return True
        return False

    def record(self, case: Any, nontrivial: bool, classes=(), n_eval: int = 1,
               n_nontrivial: int | None = None, key: str | None = None):
        """Count one executed case (or ``n_eval`` inner cases of one outer case)."""
        self.evaluations += n_eval
        for c in classes:
            self.classes[c] += 1
        if n_nontrivial is None:
            n_nontrivial = 1 if nontrivial else 0
        if n_nontrivial:
            d = key or digest(case)
            if d not in self.nontrivial:
                self.nontrivial[d] = n_nontrivial
            part = case.get("part", "") if isinstance(case, dict) else ""
            if self._samples_per_part[part] < self.sample_quota:
                self._samples_per_part[part] += 1
                s = canon(case)
                self.samples.append(json.loads(s) if len(s) < 6000 else {"part": part, "truncated": s[:6000]})

    def known_finding(self, key: str, case: Any, detail: str = ""):
        """Route a failing case to a listed known finding, or raise if it is not listed."""
        if key not in self.known:
            raise Violation(f"[{key}] {detail}")
        self.excluded_known[key] += 1
        if key not in self.known_cases:
            self.known_cases[key] = {"case": json.loads(canon(case)), "detail": detail}

    # -- failure capture -------------------------------------------------
    def note_failure(self, case: Any, msg: str):
        if self.first_failure_t is None:
            self.first_failure_t = time.time()
        self.best_failure = (json.loads(canon(case)), msg)

    def shrink_expired(self) -> bool:
        return (self.first_failure_t is not None
                and time.time() - self.first_failure_t > self.shrink_budget_s)

    def add_violation(self, case: Any, msg: str) -> str:
        os.makedirs(FOUND_DIR, exist_ok=True)
        path = os.path.join(FOUND_DIR, f"{self.pid}-{digest(case)[:12]}.json")
        with open(path, "w") as f:
            json.dump({"property": self.pid, "msg": msg, "seed": self.seed,
                       "tier": self.tier, "case": case}, f, indent=1, default=_json_default)
        self.violations.append({"replay": path, "msg": msg[:2000]})
        return path

    def result(self) -> dict:
        return {
            "shard": self.shard,
            "evaluations": self.evaluations,
            "nontrivial": self.nontrivial,
            "classes": dict(self.classes),
            "samples": self.samples,
            "excluded_known": dict(self.excluded_known),
            "known_cases": self.known_cases,
            "violations": self.violations,
            "budget_exhausted": self.budget_exhausted,
            "exhaustive_subdomains": self.exhaustive_subdomains,
            "notes": self.notes,
            "wall_s": time.time() - self.t0,
        }


# ---------------------------------------------------------------------------
# Hypothesis drivers
# ---------------------------------------------------------------------------

def _settings(max_examples: int, stateful_steps: int | None = None):
    from hypothesis import HealthCheck, Phase, settings

    kw = dict(
        max_examples=max_examples,
        database=None,
        deadline=None,
        derandomize=False,
        report_multiple_bugs=False,
        suppress_health_check=[HealthCheck.too_slow, HealthCheck.data_too_large,
                               HealthCheck.large_base_example],
        phases=[Phase.generate, Phase.shrink],
        print_blob=False,
    )
    if stateful_steps is not None:
        kw["stateful_step_count"] = stateful_steps
    return settings(**kw)


def derive_seed(ctx: Ctx, part: str, batch: int) -> int:
    h = hashlib.sha1(f"{ctx.pid}/{part}/{ctx.seed}/{ctx.shard}/{batch}".encode()).hexdigest()
    return int(h[:15], 16)


def _drive(gen) -> bool:
    while True:
        try:
            next(gen)
        except StopIteration as stop:
            return bool(stop.value)


def run_given(ctx: Ctx, part: str, strategy, check_fn: Callable[[dict, Ctx], None],
              n_examples: int, batch: int = 100) -> bool:
    """One part from start to end (see given_part)."""
    return _drive(given_part(ctx, part, strategy, check_fn, n_examples, batch))


def run_machine(ctx: Ctx, part: str, machine_factory: Callable[[], type], n_examples: int,
                steps: int, batch: int = 20) -> bool:
    return _drive(machine_part(ctx, part, machine_factory, n_examples, steps, batch))


def run_parts(ctx: Ctx, parts) -> bool:
    """Round-robin over several parts (generators made by given_part / machine_part): one batch of each in turn, until
    all are done, one reports a violation (-> False), or the time budget is used up.  On a loaded machine every part
    then loses the same share of its cases, instead of the parts registered last never running at all."""
    live = list(parts)
    while live:
        for g in list(live):
            try:
                next(g)
            except StopIteration as stop:
                live.remove(g)
                if not stop.value:
                    for other in live:
                        other.close()
                    return False
    return True


def given_part(ctx: Ctx, part: str, strategy, check_fn: Callable[[dict, Ctx], None],
               n_examples: int, batch: int = 100):
    """Generator: drives ``check_fn`` over ``n_examples`` cases drawn from ``strategy``, yielding after every batch.

    Returns False when a violation was found (and recorded).  Runs in batches
    with distinct derived seeds so that the time budget can stop the run
    between batches; a stop because of the budget is recorded as
    ``budget_exhausted`` and is not a failure.
    """
    import hypothesis
    from hypothesis import given

    done = 0
    b = 0
    while done < n_examples:
        if ctx.expired():
            ctx.notes.append(f"{part}: budget exhausted after {done}/{n_examples} examples")
            return True
        n = min(batch, n_examples - done)

        def test(case):
            if ctx.shrink_expired():
                return
            if ctx.first_failure_t is None and time.time() > ctx.deadline + 30:
                return  # hard stop inside a batch (very slow cases)
            ctx.begin_case()
            try:
                check_fn(case, ctx)
            except Violation as e:
                ctx.note_failure(case, str(e))
                raise
            except Exception as e:  # noqa: BLE001
                v = as_violation(e)
                if v is None:
                    raise
                ctx.note_failure(case, str(v))
                raise v from e

        wrapped = hypothesis.seed(derive_seed(ctx, part, b))(
            _settings(n)(given(strategy)(test))
        )
        try:
            wrapped()
        except BaseException as e:  # noqa: BLE001
            if ctx.best_failure is not None:
                case, msg = ctx.best_failure
                ctx.add_violation(case, msg)
                ctx.best_failure = None
                return False
            if isinstance(e, (KeyboardInterrupt, SystemExit)):
                raise
            raise HarnessError(f"{part}: {type(e).__name__}: {e}\n{traceback.format_exc()}") from e
        done += n
        b += 1
        yield
    return True


def machine_part(ctx: Ctx, part: str, machine_factory: Callable[[], type], n_examples: int,
                 steps: int, batch: int = 20):
    """Generator (one batch per step): drive a RuleBasedStateMachine.  The machine must call ``ctx.note_failure``
    with its recorded history before raising Violation (see ``HistoryMachine``)."""
    import hypothesis
    from hypothesis.stateful import run_state_machine_as_test

    done = 0
    b = 0
    while done < n_examples:
        if ctx.expired():
            ctx.notes.append(f"{part}: budget exhausted after {done}/{n_examples} histories")
            return True
        n = min(batch, n_examples - done)
        machine = hypothesis.seed(derive_seed(ctx, part, b))(machine_factory())
        try:
            run_state_machine_as_test(machine, settings=_settings(n, stateful_steps=steps))
        except BaseException as e:  # noqa: BLE001
            if ctx.best_failure is not None:
                case, msg = ctx.best_failure
                ctx.add_violation(case, msg)
                ctx.best_failure = None
                return False
            if isinstance(e, (KeyboardInterrupt, SystemExit)):
                raise
            raise HarnessError(f"{part}: {type(e).__name__}: {e}\n{traceback.format_exc()}") from e
        done += n
        b += 1
        yield
    return True


def run_enumerated(ctx: Ctx, part: str, items, check_fn: Callable[[dict, Ctx], None]) -> bool:
    """Walk an explicit iterable of cases (small to large); first failure is minimal."""
    return _drive(enumerated_part(ctx, part, items, check_fn, every=10**9))


def enumerated_part(ctx: Ctx, part: str, items, check_fn: Callable[[dict, Ctx], None], every: int = 50):
    """Generator form of run_enumerated for run_parts: yields after every ``every`` cases."""
    k = 0
    for case in items:
        k += 1
        if k % every == 0:
            yield
        if ctx.expired():
            ctx.notes.append(f"{part}: budget exhausted during enumeration")
            return True
        ctx.begin_case()
        try:
            check_fn(case, ctx)
        except Violation as e:
            ctx.add_violation(json.loads(canon(case)), str(e))
            return False
    return True


def per_shard(ctx: Ctx, total: int) -> int:
    """Split a total example count over the shards (at least 1 each)."""
    return max(1, (total + ctx.nshards - 1) // ctx.nshards)


def eprint(*a):
    print(*a, file=sys.stderr, flush=True)
