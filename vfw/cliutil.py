"""In-process invocation of the cooler command line (click CliRunner)."""
from __future__ import annotations


def run_cli(args, input=None):
    """Returns (exit_code, stdout, exception-or-None)."""
    from click.testing import CliRunner

    from cooler.cli import cli

    r = CliRunner().invoke(cli, [str(a) for a in args], input=input, catch_exceptions=True)
    try:
        out = r.stdout
    except Exception:  # noqa: BLE001
        out = r.output
    exc = r.exception
    if isinstance(exc, SystemExit):
        exc = None if r.exit_code == 0 else exc
    return r.exit_code, out, exc
