"""Reference model (DESIGN §3.4).  Never calls cooler.

A bin table is the JSON form of gen.py (names + per-chromosome edge lists); a
matrix is a list of pixel rows ``[i, j, v0, v1, ...]`` plus a storage mode.
Every definition is deliberately naive: linear scans, dict sums, dense numpy.
"""
from __future__ import annotations

import math
from collections import OrderedDict

import numpy as np


# ---------------------------------------------------------------------------
# bins
# ---------------------------------------------------------------------------

def bins_rows(bt):
    out = []
    for name, e in zip(bt["names"], bt["edges"]):
        for a, z in zip(e[:-1], e[1:]):
            out.append((name, a, z))
    return out


def chrom_offsets(bt):
    off = [0]
    for e in bt["edges"]:
        off.append(off[-1] + len(e) - 1)
    return off


def tiles(bt, b: int) -> bool:
    """True iff every bin of the table is [k*b, min((k+1)*b, L))."""
    if b is None or b <= 0:
        return False
    for e in bt["edges"]:
        L = e[-1]
        want = [k * b for k in range(math.ceil(L / b))] + [L]
        if e != want:
            return False
    return True


def true_binsize(bt):
    """The width b such that the table tiles with b and some chromosome shows it
    (has >= 2 bins); None if there is no such b."""
    cands = {e[1] - e[0] for e in bt["edges"] if len(e) >= 3}
    if len(cands) != 1:
        return None
    b = next(iter(cands))
    return b if tiles(bt, b) else None


def binnify(names, lengths, w):
    edges = []
    for L in lengths:
        nb = -(-L // w)
        edges.append([k * w for k in range(nb)] + ([L] if nb > 0 else []))
    return {"names": list(names), "edges": edges}


def overlap_bins(bt, chrom, s, e):
    """(lo, hi) global ids of bins of ``chrom`` overlapping the non-empty [s, e)."""
    rows = bins_rows(bt)
    ids = [k for k, (c, a, z) in enumerate(rows) if c == chrom and a < e and z > s]
    if not ids:
        return None
    assert ids == list(range(ids[0], ids[-1] + 1))
    return ids[0], ids[-1] + 1


def bin_of(bt, chrom, pos):
    """Global id of the bin of ``chrom`` containing pos (start <= pos < end), or None."""
    for k, (c, a, z) in enumerate(bins_rows(bt)):
        if c == chrom and a <= pos < z:
            return k
    return None


# ---------------------------------------------------------------------------
# matrices
# ---------------------------------------------------------------------------

def dense(rows, n, symmetric, col=0, dtype=float):
    A = np.zeros((n, n), dtype=dtype)
    for r in rows:
        i, j, v = r[0], r[1], r[2 + col]
        A[i, j] = v
        if symmetric and i != j:
            A[j, i] = v
    return A


def as_dict(rows):
    d = OrderedDict()
    for r in rows:
        d[(r[0], r[1])] = list(r[2:])
    return d


def merge_rows(list_of_rows, aggs=("sum",)):
    """Element-wise aggregate of several pixel lists over the same axes."""
    acc: dict[tuple[int, int], list[list]] = {}
    for rows in list_of_rows:
        for r in rows:
            acc.setdefault((r[0], r[1]), []).append(list(r[2:]))
    out = []
    for key in sorted(acc):
        vals = acc[key]
        ncol = len(vals[0])
        agg = []
        for c in range(ncol):
            col = [v[c] for v in vals]
            how = aggs[c] if c < len(aggs) else "sum"
            agg.append(_agg(col, how))
        out.append([key[0], key[1], *agg])
    return out


def _agg(col, how):
    if how == "sum":
        return sum(col)
    if how == "min":
        return min(col)
    if how == "max":
        return max(col)
    if how == "first":
        return col[0]
    if how == "mean":
        return sum(col) / len(col)
    if how == "count":
        return len(col)
    if how == "range":
        return max(col) - min(col)
    raise ValueError(how)


def coarsen_bins(bt, k):
    edges = []
    for e in bt["edges"]:
        ne = e[0:-1:k] + [e[-1]]
        edges.append(ne)
    return {"names": list(bt["names"]), "edges": edges}


def coarsen_map(bt, k):
    """old global bin id -> new global bin id."""
    m, new_off = [], 0
    for e in bt["edges"]:
        nb = len(e) - 1
        for t in range(nb):
            m.append(new_off + t // k)
        new_off += -(-nb // k)
    return m


def coarsen_rows(bt, rows, k, symmetric, aggs=("sum",)):
    m = coarsen_map(bt, k)
    acc: dict[tuple[int, int], list[list]] = {}
    for r in rows:
        acc.setdefault((m[r[0]], m[r[1]]), []).append(list(r[2:]))
    out = []
    for key in sorted(acc):
        vals = acc[key]
        agg = [_agg([v[c] for v in vals], aggs[c] if c < len(aggs) else "sum")
               for c in range(len(vals[0]))]
        out.append([key[0], key[1], *agg])
    return out


# ---------------------------------------------------------------------------
# reading helpers (these read a *cooler* through its public API into model form)
# ---------------------------------------------------------------------------

def read_pixels(clr, cols=("count",)):
    df = clr.pixels()[:]
    out = []
    arrs = [df["bin1_id"].to_numpy(), df["bin2_id"].to_numpy()] + [df[c].to_numpy() for c in cols]
    for t in range(len(df)):
        out.append([a[t].item() for a in arrs])
    return out


def read_bins(clr):
    df = clr.bins()[["chrom", "start", "end"]][:]
    return [(str(c), int(s), int(e)) for c, s, e in zip(df["chrom"], df["start"], df["end"])]
