"""Helpers that turn model-form data into inputs of cooler's public API."""
from __future__ import annotations

import hashlib

import numpy as np
import pandas as pd

from . import gen


def pixel_frame(rows, cols=("count",), dtypes=None, id_dtype="int64"):
    """DataFrame bin1_id, bin2_id, *cols from model rows [i, j, v...]."""
    dtypes = dtypes or {}
    data = {
        "bin1_id": np.array([r[0] for r in rows], dtype=id_dtype),
        "bin2_id": np.array([r[1] for r in rows], dtype=id_dtype),
    }
    for k, c in enumerate(cols):
        vals = [r[2 + k] for r in rows]
        dt = dtypes.get(c)
        if dt is None:
            dt = "int64" if all(isinstance(v, (int, np.integer)) for v in vals) else "float64"
        data[c] = np.array(vals, dtype=dt)
    return pd.DataFrame(data)


def pixel_dict(rows, cols=("count",), dtypes=None):
    df = pixel_frame(rows, cols, dtypes)
    return {k: df[k].to_numpy() for k in df.columns}


def create_from_model(uri, bt, rows, symmetric=True, cols=("count",), dtypes=None,
                      bins_extra=None, categorical=False, **kw):
    import cooler

    bins = gen.bins_df(bt, categorical=categorical, extra=bins_extra)
    px = pixel_frame(rows, cols)
    columns = None if tuple(cols) == ("count",) else list(cols)
    cooler.create_cooler(uri, bins, px, columns=columns, dtypes=dtypes,
                         symmetric_upper=symmetric, ordered=True, **kw)
    return uri


def h5_deep_digest(grp, skip=()):
    """Digest of every dataset (raw bytes, dtype, shape) and attribute below a group."""
    import h5py

    h = hashlib.sha1()

    def visit(g, prefix):
        for k in sorted(g.attrs.keys()):
            if (prefix, "@" + k) in skip:
                continue
            v = g.attrs[k]
            h.update(f"A|{prefix}|{k}|{_attr_repr(v)}".encode())
        if isinstance(g, h5py.Dataset):
            arr = g[...]
            h.update(f"D|{prefix}|{g.dtype.str}|{g.shape}|{h5py.check_dtype(enum=g.dtype)}".encode())
            h.update(np.ascontiguousarray(arr).tobytes())
            return
        for name in sorted(g.keys()):
            p = f"{prefix}/{name}"
            if p in skip:
                continue
            link = g.get(name, getlink=True)
            if isinstance(link, (h5py.SoftLink, h5py.ExternalLink)):
                h.update(f"L|{p}|{link!r}".encode())
                continue
            visit(g[name], p)

    visit(grp, "")
    return h.hexdigest()


def _attr_repr(v):
    if isinstance(v, np.ndarray):
        return f"{v.dtype.str}{v.tolist()}"
    if isinstance(v, np.generic):
        return f"{v.dtype.str}{v.item()!r}"
    return repr(v)
