"""Regenerates /verif/MANIFEST.json from the property modules that exist.

    /venv/bin/python -m vfw.manifest
"""
from __future__ import annotations

import importlib
import json
import os
import sys

HERE = os.path.dirname(os.path.abspath(__file__))
VERIF = os.path.dirname(HERE)
sys.path.insert(0, VERIF)

ALL = [f"C{k:02d}" for k in range(1, 21)]

TECH = {
    "C01": "Hypothesis generators (bin tables x sparsity patterns x input forms x dtypes x filters x metadata) vs. dense reference model; round-trip oracle",
    "C02": "Hypothesis RuleBasedStateMachine over producing operations + independent raw-h5py schema validator; run-length encoder vs. itertools.groupby over every block size; >1e6-pixel boundary files",
    "C03": "Hypothesis-generated matrices with EXHAUSTIVE enumeration of all windows in [0,n]^4 (engines and API) vs. numpy slice of the dense completion; object-reuse histories",
    "C04": "Hypothesis-generated bin tables with EXHAUSTIVE enumeration of all (start,end) on small chromosomes vs. linear-scan overlap oracle; rename histories",
    "C05": "Hypothesis record multisets built from bin-edge positions vs. per-record linear-scan oracle, through API, cload pairs, load coo/bg2 and the tabix loader",
    "C06": "Hypothesis partitions/orders/buffers of a record multiset vs. dict-sum oracle (metamorphic: result independent of partition) + schema validator + temp-dir listing; same through cooler load; first call of a fresh interpreter in a subprocess",
    "C07": "Hypothesis input sets and merge trees vs. per-pixel aggregate oracle (associativity, order independence); incompatible-pair grammar; dtype-limit cases",
    "C08": "Hypothesis coolers x factors x chunk sizes x workers vs. block-aggregation model; metamorphic chains (k1 then k2 = k1*k2, coarsen/merge commute); URI-reuse histories",
    "C09": "Hypothesis base sets and target ladders vs. model coarsening (validity predicate for inconsistent bases); CLI resolution-spec grammar incl. boundary genomes",
    "C10": "Hypothesis matrices (integer and real-valued) x option vectors incl. options left to documented defaults; validity predicate: derived flatness bound on true row sums + independent three-valued filter reference; CLI blacklist / --force route",
    "C11": "Differential testing: chunk sizes x harness-owned map (adversarially permuted completion order, real pools) vs. unchunked run and dense IC reference (weights and reported statistics); span-tiling invariant via recording map; CLI stored statistics and --stdout",
    "C12": "Hypothesis windows x weight columns x output forms vs. raw * outer(w_rows, w_cols) oracle, NaN-position equality; late-weight histories",
    "C13": "Fault enumeration: for each Hypothesis-generated chunk stream EVERY (fault kind x chunk x position) and iterator failure before every chunk (+ hard exit in a forked child), oracle = recognition/listing/neighbour digests",
    "C14": "Hypothesis selectors (range spellings x column subsets) and annotate cases (orders, partial tables) vs. model tables; integer-encoded and many-contig files",
    "C15": "Hypothesis RuleBasedStateMachine over two files (create a/w via API and cooler load, cp, mv, ln hard/soft/external incl. links to links, API and CLI) vs. path->content model with link resolution; recognition probes incl. dangling links",
    "C16": "Hypothesis dump option subsets vs. model rows + library query; EXHAUSTIVE pairs of bin-aligned -r/-r2 ranges with/without --fill-lower; dump->load round trip; permuted column layouts (pairs, coo, bg2, tabix) vs. C05's record model",
    "C17": "Hypothesis cell sets (names, per-cell matrices and bin tables) vs. per-cell model; HDF5 object-address identity for the shared bin columns; path-reuse histories",
    "C18": "Hypothesis chains of injective renaming maps (swaps, cycles, longer names) with checks after every step on the same and a reopened object; deep-digest invariance; enum-header boundary",
    "C19": "Grammar-based Hypothesis generation with exact integer oracle + exhaustive numeral enumeration + mutation fuzzing against an independent reference classifier + atheris differential target",
    "C20": "Hypothesis chromsizes x width and bin tables of every layout kind + exhaustive small domains vs. integer tiling oracle; re-creation histories",
}

NOTE = {
    "default": "Trusted base: the reference model in vfw/model.py, numpy/pandas/h5py, Hypothesis. Sizes bounded as stated in DESIGN.md section 5.",
}


def main():
    checks, na = [], []
    for pid in ALL:
        try:
            mod = importlib.import_module(f"vfw.props.{pid.lower()}")
        except ImportError:
            na.append({"property_id": pid, "reason": "check not built yet in this round (planned, see DESIGN.md section 5)"})
            continue
        text = ("Generated-input search with an explicit oracle; it explores the stated domain at the stated sizes and does not "
                "establish absence of violations beyond them. " + mod.RULE)
        tech = TECH[pid]
        checks.append({
            "property_id": pid,
            "quick_cmd": f"/venv/bin/python -m vfw.check {pid} --tier quick",
            "thorough_cmd": f"/venv/bin/python -m vfw.check {pid} --tier thorough",
            "evidence_file": f"/verif/evidence/{pid}.json",
            "replay_cmd_template": f"/venv/bin/python -m vfw.check {pid} --replay {{path}}",
            "engine": "vfw",
            "level_claimed": {
                "category": mod.LEVEL,
                "text": text,
                "design_ref": f"DESIGN.md section 5, {pid}",
            },
            "level_note": getattr(mod, "LEVEL_NOTE", NOTE["default"]),
            "technique": tech,
        })
    manifest = {
        "version": 1,
        "setup_cmd": "/venv/bin/python -m vfw.deps",
        "hooks": {
            "guard": "COOLER_VERIF",
            "enable": "no source hooks are needed: cooler is an editable pure-Python install, checks import /repo/src directly and observe/perturb through public parameters and harness-side wrappers",
            "baseline_off_cmd": "cd /repo && /venv/bin/python -m pytest -ra -q -p no:cacheprovider --timeout=900 --continue-on-collection-errors",
            "source_commits": [],
            "add_only": True,
        },
        "engines": [{
            "name": "vfw",
            "path": "/verif/vfw",
            "serves_properties": [c["property_id"] for c in checks],
            "kind_free_text": "Hypothesis-driven property-based testing with a pure-Python reference model, exhaustive enumeration of small inner domains, stateful machines for histories, fault enumeration, atheris for the region-string parser",
        }],
        "checks": checks,
        "not_applicable": na,
        "notes": "See DESIGN.md. Exit codes: 0 held, 1 violation (VIOLATION line), 2 harness error. Known findings: known_findings.json.",
    }
    with open(os.path.join(VERIF, "MANIFEST.json"), "w") as f:
        json.dump(manifest, f, indent=1)
        f.write("\n")
    print(f"MANIFEST.json: {len(checks)} checks, {len(na)} not yet claimed")


if __name__ == "__main__":
    main()
