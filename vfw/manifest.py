"""Regenerates /verif/MANIFEST.json from the property modules that exist.

    /venv/bin/python -m vfw.manifest
"""
from __future__ import annotations

import importlib
import json
import os
import sys

HERE = os.path.dirname(os.path.abspath(__file__))
VERIF = os.path.dirname(HERE)
sys.path.insert(0, VERIF)

ALL = [f"C{k:02d}" for k in range(1, 21)]

TEXT = {
    "C20": ("Generated search with an integer-arithmetic tiling oracle over chromsizes x width and over every "
            "layout kind of bin table, with two completely enumerated sub-domains (all single-chromosome "
            "(L<=40,w<=45) pairs; all valid tables of <=2 chromosomes up to a total length). Exploration, not proof: "
            "sizes beyond the bounds are sampled only.",
            "Hypothesis generators + exhaustive small-domain enumeration vs. reference tiling model"),
    "C19": ("Grammar-based generation of region/URI strings with an exact integer/Decimal oracle, complete "
            "enumeration of 3-decimal k numerals and 6-decimal M numerals on a stride, a malformed-string grammar "
            "with one production per refusal, and (thorough) a coverage-guided atheris differential target.",
            "Hypothesis grammar generation + exhaustive numeral enumeration + atheris differential fuzzing"),
}

NOTE = {
    "default": "Trusted base: the reference model in vfw/model.py, numpy/pandas/h5py, Hypothesis. Sizes bounded as stated in DESIGN.md section 5.",
}


def main():
    checks, na = [], []
    for pid in ALL:
        try:
            mod = importlib.import_module(f"vfw.props.{pid.lower()}")
        except ImportError:
            na.append({"property_id": pid, "reason": "check not built yet in this round (planned, see DESIGN.md section 5)"})
            continue
        text, tech = TEXT.get(pid, (getattr(mod, "LEVEL_TEXT", mod.RULE), getattr(mod, "TECHNIQUE", "property-based testing (Hypothesis) against a reference model")))
        checks.append({
            "property_id": pid,
            "quick_cmd": f"/venv/bin/python -m vfw.check {pid} --tier quick",
            "thorough_cmd": f"/venv/bin/python -m vfw.check {pid} --tier thorough",
            "evidence_file": f"/verif/evidence/{pid}.json",
            "replay_cmd_template": f"/venv/bin/python -m vfw.check {pid} --replay {{path}}",
            "engine": "vfw",
            "level_claimed": {
                "category": mod.LEVEL,
                "text": text,
                "design_ref": f"DESIGN.md section 5, {pid}",
            },
            "level_note": getattr(mod, "LEVEL_NOTE", NOTE["default"]),
            "technique": tech,
        })
    manifest = {
        "version": 1,
        "setup_cmd": "/venv/bin/python -m vfw.deps",
        "hooks": {
            "guard": "COOLER_VERIF",
            "enable": "no source hooks are needed: cooler is an editable pure-Python install, checks import /repo/src directly and observe/perturb through public parameters and harness-side wrappers",
            "baseline_off_cmd": "cd /repo && /venv/bin/python -m pytest -ra -q -p no:cacheprovider --timeout=900 --continue-on-collection-errors",
            "source_commits": [],
            "add_only": True,
        },
        "engines": [{
            "name": "vfw",
            "path": "/verif/vfw",
            "serves_properties": [c["property_id"] for c in checks],
            "kind_free_text": "Hypothesis-driven property-based testing with a pure-Python reference model, exhaustive enumeration of small inner domains, stateful machines for histories, fault enumeration, atheris for the region-string parser",
        }],
        "checks": checks,
        "not_applicable": na,
        "notes": "See DESIGN.md. Exit codes: 0 held, 1 violation (VIOLATION line), 2 harness error. Known findings: known_findings.json.",
    }
    with open(os.path.join(VERIF, "MANIFEST.json"), "w") as f:
        json.dump(manifest, f, indent=1)
        f.write("\n")
    print(f"MANIFEST.json: {len(checks)} checks, {len(na)} not yet claimed")


if __name__ == "__main__":
    main()
