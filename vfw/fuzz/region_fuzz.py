"""atheris (libFuzzer) target for C19: differential of cooler.util.parse_region_string
against the hand-written reference classifier.  Run as a module by vfw.props.c19."""
import os
import sys

sys.path.insert(0, os.path.join(os.environ.get("VERIF_REPO", "/repo"), "src"))

import atheris  # noqa: E402

with atheris.instrument_imports(include=["cooler.util"]):
    import cooler.util  # noqa: E402,F401

from vfw.fuzz.region_ref import differential  # noqa: E402


def TestOneInput(data: bytes):
    try:
        s = data.decode("ascii")
    except UnicodeDecodeError:
        return
    msg = differential(s)
    if msg:
        raise AssertionError(msg)


def hyp_target():
    """Structured mode: libFuzzer's bytes drive the Hypothesis grammar generators."""
    import json

    from hypothesis import given, settings
    from hypothesis import strategies as st

    from vfw.props import c19

    @settings(database=None, deadline=None)
    @given(st.one_of(c19.wellformed(), c19.malformed(), c19.mutated()))
    def t(case):
        msg = differential(case["s"])
        if not msg and case["part"] == "wf":
            from cooler.util import parse_region_string

            got = parse_region_string(case["s"])
            if list(got) != case["expect"]:
                msg = f"parse_region_string({case['s']!r}) = {got!r}, denotes {case['expect']!r}"
        if not msg and case["part"] == "bad":
            from cooler.util import parse_region_string

            try:
                got = parse_region_string(case["s"])
                msg = f"malformed {case['s']!r} ({case['why']}) accepted as {got!r}"
            except Exception:  # noqa: BLE001
                pass
        if msg:
            sys.stderr.write("VFW-FUZZ-STRING " + json.dumps(case["s"]) + "\n")
            raise AssertionError(msg)

    return t.hypothesis.fuzz_one_input


def main():
    if os.environ.get("VFW_FUZZ_MODE") == "hyp":
        atheris.Setup(sys.argv, hyp_target())
    else:
        atheris.Setup(sys.argv, TestOneInput)
    atheris.Fuzz()


if __name__ == "__main__":
    main()
