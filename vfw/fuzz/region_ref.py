"""Hand-written reference classifier for region strings (independent of cooler's
regex tokenizer) and the differential used by the atheris target and replays.

classify(s) -> ("wf", (name, start, end)) | ("bad", why) | None (string in neither
claimed class: ignored).
"""
from __future__ import annotations

from decimal import Decimal

WS = " \t\n\r\x0b\x0c"
UNIT = {"K": 3, "KB": 3, "M": 6, "MB": 6, "G": 9, "GB": 9}


def _skip_ws(t, p):
    while p < len(t) and t[p] in WS:
        p += 1
    return p


def _num(t, p):
    """Scan a numeral at t[p:]. Returns (verdict, value, newpos); verdict in ok/bad/ignore."""
    q = p
    if q >= len(t) or t[q] not in "0123456789":
        return "ignore", None, p
    while q < len(t) and t[q] in "0123456789,":
        q += 1
    ip = t[p:q]
    if ip.endswith(",") or ",," in ip:
        return "ignore", None, q
    frac = None
    if q < len(t) and t[q] == ".":
        r = q + 1
        while r < len(t) and t[r] in "0123456789":
            r += 1
        frac = t[q + 1:r]
        q = r
    r = q
    while r < len(t) and (t[r].isascii() and t[r].isalpha()):
        r += 1
    unit = t[q:r]
    q = r
    ip = ip.replace(",", "")
    if not unit:
        if frac is not None:
            return "bad", "decimal-without-unit", q
        return "ok", int(ip), q
    if unit.upper() not in UNIT:
        return "bad", "unknown-unit", q
    val = Decimal(ip + "." + (frac or "0")) * (Decimal(10) ** UNIT[unit.upper()])
    if val != val.to_integral_value():
        return "ignore", None, q
    return "ok", int(val), q


def classify(s: str):
    if not s.isascii():
        return None
    if any(ch in s for ch in "\x1c\x1d\x1e\x1f\x85"):
        return None
    if ":" not in s:
        name = s.strip()
        return ("wf", (name, None, None)) if name else ("bad", "empty-name")
    head, rest = s.split(":", 1)
    if ":" in rest:
        return None
    name = head.strip()
    if not name:
        return ("bad", "empty-name")
    p = _skip_ws(rest, 0)
    if p >= len(rest):
        return ("bad", "missing-start")
    if rest[p] == "-":
        return ("bad", "negative")
    if rest[p] not in "0123456789,":
        return ("bad", "non-numeric")
    v, a, p = _num(rest, p)
    if v == "ignore":
        return None
    if v == "bad":
        return ("bad", a)
    p = _skip_ws(rest, p)
    if p >= len(rest):
        return ("bad", "missing-hyphen")
    if rest[p] != "-":
        return None
    p += 1
    if p >= len(rest):
        return ("wf", (name, a, None))
    p = _skip_ws(rest, p)
    if p >= len(rest):
        return None  # trailing blanks after the hyphen: unclaimed
    if rest[p] == "-":
        return ("bad", "negative")
    v, b, p = _num(rest, p)
    if v == "ignore":
        return None
    if v == "bad":
        return ("bad", b)
    if p != len(rest):
        return None  # trailing material: unclaimed
    if b < a:
        return ("bad", "reversed")
    return ("wf", (name, a, b))


def differential(s: str):
    """Returns an error message if cooler disagrees with the reference, else None."""
    from cooler.util import parse_region_string

    verdict = classify(s)
    if verdict is None:
        return None
    try:
        got = parse_region_string(s)
        err = None
    except Exception as e:  # noqa: BLE001
        got, err = None, e
    if verdict[0] == "wf":
        if err is not None:
            return f"well-formed {s!r} refused: {type(err).__name__}: {err}"
        if tuple(got) != verdict[1]:
            return f"parse_region_string({s!r}) = {got!r}, denotes {verdict[1]!r}"
        return None
    if err is None:
        return f"malformed {s!r} ({verdict[1]}) accepted as {got!r}"
    return None
