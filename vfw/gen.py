"""Hypothesis strategies shared by the property modules (DESIGN §3).

Everything is generated *by construction* and as plain JSON-able data:

bin table  ``{"names": [str], "edges": [[0, e1, ..., L], ...], "kinds": [str]}``
pixels     ``[[bin1, bin2, count, (x, (y))] ...]`` sorted by (bin1, bin2), unique
"""
from __future__ import annotations

from hypothesis import strategies as st

NAME_POOL = ["chr1", "chr2", "chrX", "2L", "GL000207.1", "name-with-hyphens",
             "gb|acc|locus", "a", "b", "chrM", "10", "chr10"]
NAME_POOL_API = NAME_POOL + ["chr 1 alt"]

_name_chars = "abcdefghijklmnopqrstuvwxyzABCDEFGHIJKLMNOPQRSTUVWXYZ0123456789_.|-"
# Strings that pandas' text reader turns into missing values by default; a
# sequence called "NA" or "null" cannot pass through any of cooler's text
# routes (read_chromsizes, BED bins, pairs).  Outside the accepted domain.
PANDAS_NA = {"NA", "NULL", "NaN", "None", "nan", "null", "n/a", "N/A", "-nan", "-NaN"}


def random_name(min_size=1, max_size=12):
    return st.text(_name_chars, min_size=min_size, max_size=max_size).filter(
        lambda s: s not in PANDAS_NA)


def chrom_names(n: int, allow_space: bool = False):
    pool = NAME_POOL_API if allow_space else NAME_POOL
    one = st.one_of(st.sampled_from(pool), random_name())
    return st.lists(one, min_size=n, max_size=n, unique=True)


@st.composite
def chrom_edges(draw, kind: str, b: int, max_bins: int):
    """Cut points [0, ..., L] of one chromosome of the given layout kind."""
    if kind == "fixed":
        nb = draw(st.integers(1, max_bins))
        r = draw(st.one_of(st.just(b), st.integers(1, b)))
        L = (nb - 1) * b + r
        return [k * b for k in range(nb)] + [L]
    if kind == "onebin":
        L = draw(st.one_of(st.integers(1, b), st.integers(1, 3 * b + 2)))
        return [0, L]
    if kind == "variable":
        nb = draw(st.integers(1, max_bins))
        widths = draw(st.lists(st.integers(1, 2 * b + 1), min_size=nb, max_size=nb))
        e = [0]
        for w in widths:
            e.append(e[-1] + w)
        return e
    if kind == "near-uniform":
        nb = draw(st.integers(2, max(2, max_bins)))
        r = draw(st.integers(1, b))
        L = (nb - 1) * b + r
        e = [k * b for k in range(nb)] + [L]
        how = draw(st.sampled_from(["fuse-last", "split-interior", "long-last"]))
        if how == "fuse-last":
            del e[-2]           # last two bins fused -> longer last bin
        elif how == "long-last":
            e[-1] = (nb - 1) * b + b + draw(st.integers(1, b))   # last bin longer than b
        else:
            if b >= 2:
                k = draw(st.integers(0, nb - 1))
                lo, hi = e[k], e[k + 1]
                if hi - lo >= 2:
                    e.insert(k + 1, draw(st.integers(lo + 1, hi - 1)))
        return e
    raise ValueError(kind)


@st.composite
def bin_tables(draw, max_chroms: int = 4, max_bins: int = 8, max_width: int = 12,
               kinds=("fixed", "variable", "onebin", "near-uniform"),
               allow_space: bool = False, scale: bool = True, min_chroms: int = 1,
               all_fixed_prob: float = 0.45):
    nch = draw(st.integers(min_chroms, max_chroms))
    names = draw(chrom_names(nch, allow_space))
    b = draw(st.integers(1, max_width))
    uniform = "fixed" in kinds and draw(st.floats(0, 1)) < all_fixed_prob
    edges, ks = [], []
    for _ in range(nch):
        kind = "fixed" if uniform else draw(st.sampled_from(list(kinds)))
        ks.append(kind)
        edges.append(draw(chrom_edges(kind, b, max_bins)))
    if scale:
        s = draw(st.sampled_from([1, 1, 1, 1, 10, 1000, 100000]))
        if s != 1:
            edges = [[x * s for x in e] for e in edges]
            b *= s
    return {"names": names, "edges": edges, "kinds": ks, "b": b}


def fixed_bin_tables(**kw):
    kw.setdefault("kinds", ("fixed",))
    kw["all_fixed_prob"] = 1.1
    return bin_tables(**kw)


def n_bins(bt) -> int:
    return sum(len(e) - 1 for e in bt["edges"])


def bins_rows(bt):
    """[(chrom, start, end)] in table order."""
    out = []
    for name, e in zip(bt["names"], bt["edges"]):
        for a, z in zip(e[:-1], e[1:]):
            out.append((name, a, z))
    return out


def bins_df(bt, categorical: bool = False, extra: dict | None = None):
    import pandas as pd

    rows = bins_rows(bt)
    df = pd.DataFrame({
        "chrom": [r[0] for r in rows],
        "start": [r[1] for r in rows],
        "end": [r[2] for r in rows],
    })
    if categorical:
        df["chrom"] = pd.Categorical(df["chrom"], categories=list(bt["names"]), ordered=True)
    if extra:
        for k, v in extra.items():
            df[k] = v
    return df


def chromsizes_series(bt):
    import pandas as pd

    return pd.Series([e[-1] for e in bt["edges"]], index=list(bt["names"]), dtype="int64")


# ---------------------------------------------------------------------------
# matrices
# ---------------------------------------------------------------------------

COUNT_VALUES = st.one_of(st.integers(1, 9), st.integers(0, 3), st.integers(1, 100000))
# float values are dyadic rationals so that sums are exact; DYADIC fits float32
# (<= 24 significant bits), DYADIC64 needs float64 (up to 46 bits).
DYADIC = st.one_of(st.integers(-64, 640), st.integers(-2**20, 2**20)).map(lambda k: k / 16.0)
DYADIC64 = st.one_of(DYADIC, st.integers(-2**45, 2**45).map(lambda k: k / 1024.0))
SMALL_INT = st.integers(-100, 100)


@st.composite
def pixel_coords(draw, n: int, symmetric: bool, max_nnz: int | None = None):
    """Sorted unique (i, j) list drawn from one of several sparsity patterns."""
    if n == 0:
        return []
    full = [(i, j) for i in range(n) for j in range(i if symmetric else 0, n)]
    pattern = draw(st.sampled_from(
        ["empty", "single", "diag", "full", "band", "random", "random", "random",
         "emptyrows", "lastrow"]))
    if pattern == "empty":
        coords = []
    elif pattern == "single":
        coords = [draw(st.sampled_from(full))]
    elif pattern == "diag":
        keep = draw(st.lists(st.booleans(), min_size=n, max_size=n))
        coords = [(i, i) for i in range(n) if keep[i]]
    elif pattern == "full":
        coords = full
    elif pattern == "band":
        w = draw(st.integers(0, 3))
        coords = [(i, j) for (i, j) in full if abs(i - j) <= w]
    elif pattern == "lastrow":
        coords = [(i, j) for (i, j) in full if i == n - 1 or j == n - 1]
    else:
        if len(full) <= 400:
            mask = draw(st.lists(st.booleans(), min_size=len(full), max_size=len(full)))
            coords = [c for c, m in zip(full, mask) if m]
        else:
            k = draw(st.integers(0, 200))
            idx = draw(st.lists(st.integers(0, len(full) - 1), min_size=k, max_size=k, unique=True))
            coords = [full[t] for t in sorted(idx)]
        if pattern == "emptyrows" and n >= 2:
            dead = set(draw(st.lists(st.integers(0, n - 1), min_size=1, max_size=max(1, n // 2))))
            coords = [(i, j) for (i, j) in coords if i not in dead and (not symmetric or j not in dead)]
    if max_nnz is not None and len(coords) > max_nnz:
        coords = coords[:max_nnz]
    return coords


@st.composite
def pixels(draw, n: int, symmetric: bool, extra_cols=(), count=COUNT_VALUES,
           max_nnz: int | None = None):
    """Rows [i, j, count, *extras]; ``extra_cols`` is a sequence of value strategies."""
    coords = draw(pixel_coords(n, symmetric, max_nnz))
    m = len(coords)
    cols = [draw(st.lists(count, min_size=m, max_size=m))]
    for s in extra_cols:
        cols.append(draw(st.lists(s, min_size=m, max_size=m)))
    return [[i, j, *[c[t] for c in cols]] for t, (i, j) in enumerate(coords)]


def cuts(n_items: int, max_chunks: int = 6):
    """Cut positions (may repeat -> empty chunks) splitting a list of n items."""
    return st.lists(st.integers(0, n_items), min_size=0, max_size=max_chunks - 1).map(sorted)


def split_at(rows, cutpoints):
    out, prev = [], 0
    for c in list(cutpoints) + [len(rows)]:
        out.append(rows[prev:c])
        prev = c
    return out


H5OPTS = st.sampled_from([
    None, None, None,
    {"compression": None},
    {"compression": "gzip", "compression_opts": 1},
    {"compression": "lzf"},
    {"shuffle": False},
    {"compression": None, "chunks": [1]},
    {"fletcher32": True},
])


def json_values(max_leaves: int = 8):
    leaf = st.one_of(
        st.none(), st.booleans(), st.integers(-2**53, 2**53),
        st.floats(allow_nan=False, allow_infinity=False, width=64),
        st.text(st.characters(blacklist_categories=("Cs",), max_codepoint=0x2FFF), max_size=12),
    )
    return st.recursive(
        leaf,
        lambda ch: st.one_of(
            st.lists(ch, max_size=4),
            st.dictionaries(st.text(st.characters(blacklist_categories=("Cs",), max_codepoint=0x2FFF),
                                    max_size=8), ch, max_size=4),
        ),
        max_leaves=max_leaves,
    )


def metadata_docs():
    return st.one_of(
        st.none(),
        st.dictionaries(st.text("abcdefghij-_ XYZ0123456789é", min_size=0, max_size=8), json_values(), max_size=4),
    )
