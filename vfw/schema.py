"""Independent structural validator of a cooler data collection (raw h5py only).

Written from docs/schema_v3.rst and the statement of property C02; does not
import cooler.  ``validate(group)`` returns a list of problem strings (empty =
valid).
"""
from __future__ import annotations

import math

import numpy as np


def _chrom_codes(grp):
    return np.asarray(grp["bins/chrom"][:], dtype=np.int64)


def validate(grp, expect_count_sum: bool = True) -> list[str]:
    import h5py

    problems: list[str] = []
    for g in ("chroms", "bins", "pixels", "indexes"):
        if g not in grp or not isinstance(grp[g], h5py.Group):
            problems.append(f"missing group {g}")
    if problems:
        return problems
    attrs = dict(grp.attrs)
    for a in ("format", "format-version", "bin-type", "bin-size", "storage-mode", "nbins", "nchroms", "nnz"):
        if a not in attrs:
            problems.append(f"missing attribute {a}")
    if problems:
        return problems
    if attrs["format"] != "HDF5::Cooler":
        problems.append(f"format attribute {attrs['format']!r}")
    if int(attrs["format-version"]) != 3:
        problems.append(f"format-version {attrs['format-version']!r}")

    # -- chroms -------------------------------------------------------------
    names = grp["chroms/name"][:]
    lengths = np.asarray(grp["chroms/length"][:], dtype=np.int64)
    nchroms = int(attrs["nchroms"])
    if len(names) != nchroms or len(lengths) != nchroms:
        problems.append(f"chroms columns have {len(names)}/{len(lengths)} rows, nchroms attribute {nchroms}")
    for k in grp["chroms"]:
        if len(grp["chroms"][k]) != len(names):
            problems.append(f"chroms/{k} length differs")
    if len(set(names.tolist())) != len(names):
        problems.append("duplicate chromosome names")

    # -- bins ---------------------------------------------------------------
    nbins = int(attrs["nbins"])
    codes = _chrom_codes(grp)
    start = np.asarray(grp["bins/start"][:], dtype=np.int64)
    end = np.asarray(grp["bins/end"][:], dtype=np.int64)
    for k in grp["bins"]:
        if len(grp["bins"][k]) != nbins:
            problems.append(f"bins/{k} has {len(grp['bins'][k])} rows, nbins attribute {nbins}")
    if problems:
        return problems
    enum = h5py.check_dtype(enum=grp["bins/chrom"].dtype)
    if enum is not None:
        want = {(n.decode() if isinstance(n, bytes) else str(n)): i for i, n in enumerate(names.tolist())}
        if dict(enum) != want:
            problems.append("bins/chrom enum mapping differs from chroms/name order")
    if nbins:
        if codes.min() < 0 or codes.max() >= nchroms:
            problems.append("bins/chrom code out of range")
        if np.any(np.diff(codes) < 0):
            problems.append("bins not sorted by chromosome")
    chrom_offset = np.asarray(grp["indexes/chrom_offset"][:], dtype=np.int64)
    want_co = np.searchsorted(codes, np.arange(nchroms + 1), side="left")
    if len(chrom_offset) != nchroms + 1 or not np.array_equal(chrom_offset, want_co):
        problems.append(f"chrom_offset {chrom_offset.tolist()[:12]} is not the run-length index of bins/chrom {want_co.tolist()[:12]}")
    edges_per_chrom = []
    for c in range(nchroms):
        lo, hi = int(want_co[c]), int(want_co[c + 1])
        if hi == lo:
            problems.append(f"chromosome {c} has no bins")
            edges_per_chrom.append(None)
            continue
        s, e = start[lo:hi], end[lo:hi]
        if s[0] != 0:
            problems.append(f"first bin of chromosome {c} starts at {s[0]}")
        if np.any(e <= s):
            problems.append(f"empty or negative bin on chromosome {c}")
        if np.any(s[1:] != e[:-1]):
            problems.append(f"bins of chromosome {c} are not contiguous")
        if e[-1] != lengths[c]:
            problems.append(f"last bin of chromosome {c} ends at {e[-1]}, chroms/length is {lengths[c]}")
        edges_per_chrom.append([0, *e.tolist()] if s[0] == 0 else None)

    # -- bin-type / bin-size --------------------------------------------------
    btype, bsize = attrs["bin-type"], attrs["bin-size"]
    if btype == "fixed":
        try:
            b = int(bsize)
        except (TypeError, ValueError):
            b = None
            problems.append(f"bin-type fixed but bin-size {bsize!r}")
        if b is not None:
            if b <= 0:
                problems.append(f"bin-size {b}")
            else:
                for c, e in enumerate(edges_per_chrom):
                    if e is None:
                        continue
                    L = e[-1]
                    want = [k * b for k in range(math.ceil(L / b))] + [L]
                    if e != want:
                        problems.append(f"bin-size {b} reported but chromosome {c} is not tiled by it: edges {e[:8]}")
                        break
    elif btype == "variable":
        if not (isinstance(bsize, str) and bsize == "null"):
            problems.append(f"bin-type variable but bin-size {bsize!r}")
        # a table that *is* a uniform tiling shown by a >=2-bin chromosome must not be called variable
        widths = {e[1] - e[0] for e in edges_per_chrom if e is not None and len(e) >= 3}
        if len(widths) == 1:
            b = next(iter(widths))
            if all(e is not None and e == [k * b for k in range(math.ceil(e[-1] / b))] + [e[-1]] for e in edges_per_chrom):
                problems.append(f"table is a uniform {b}-tiling but reported as variable")
    else:
        problems.append(f"bin-type {btype!r}")

    # -- pixels -----------------------------------------------------------------
    nnz = int(attrs["nnz"])
    px = grp["pixels"]
    if "bin1_id" not in px or "bin2_id" not in px:
        problems.append("pixels lacks bin1_id/bin2_id")
        return problems
    for k in px:
        if len(px[k]) != nnz:
            problems.append(f"pixels/{k} has {len(px[k])} rows, nnz attribute {nnz}")
    if problems:
        return problems
    b1 = np.asarray(px["bin1_id"][:], dtype=np.int64)
    b2 = np.asarray(px["bin2_id"][:], dtype=np.int64)
    mode = attrs["storage-mode"]
    if mode not in ("symmetric-upper", "square"):
        problems.append(f"storage-mode {mode!r}")
    if nnz:
        if b1.min() < 0 or b2.min() < 0 or b1.max() >= nbins or b2.max() >= nbins:
            problems.append("pixel bin id out of range")
        key = b1 * (nbins + 1) + b2
        if np.any(np.diff(key) <= 0):
            t = int(np.argmax(np.diff(key) <= 0))
            problems.append(f"pixels not strictly increasing in (bin1_id, bin2_id) at row {t + 1}: "
                            f"({b1[t]},{b2[t]}) then ({b1[t + 1]},{b2[t + 1]})")
        if mode == "symmetric-upper" and np.any(b1 > b2):
            problems.append("lower-triangle pixel in symmetric-upper mode")
    bin1_offset = np.asarray(grp["indexes/bin1_offset"][:], dtype=np.int64)
    want_bo = np.searchsorted(b1, np.arange(nbins + 1), side="left")
    if len(bin1_offset) != nbins + 1 or not np.array_equal(bin1_offset, want_bo):
        bad = np.flatnonzero(bin1_offset[: len(want_bo)] != want_bo[: len(bin1_offset)])[:5].tolist() \
            if len(bin1_offset) == len(want_bo) else "length"
        problems.append(f"bin1_offset is not the run-length index of pixels/bin1_id (first differences at {bad})")

    # -- sum ------------------------------------------------------------------
    if "count" in px and expect_count_sum:
        if "sum" not in attrs:
            problems.append("missing attribute sum")
        else:
            cnt = px["count"][:]
            if cnt.dtype.kind in "iu":
                tot = int(cnt.astype(object).sum()) if nnz else 0
                if int(attrs["sum"]) != tot:
                    problems.append(f"sum attribute {attrs['sum']} but counts add up to {tot}")
            else:
                tot = float(np.sum(cnt.astype(float))) if nnz else 0.0
                if not math.isclose(float(attrs["sum"]), tot, rel_tol=1e-9, abs_tol=1e-9):
                    problems.append(f"sum attribute {attrs['sum']} but counts add up to {tot}")
    return problems


def validate_file(path: str, group_paths) -> dict[str, list[str]]:
    import h5py

    out = {}
    with h5py.File(path, "r") as f:
        for g in group_paths:
            out[g] = validate(f[g])
    return out
