"""Tools for the seeded changes under /verif/seeded/<id>/ (not a registered check).

    python -m vfw.seeded verify <dir-with-patch.diff+demo.py>    # confirm in a scratch worktree
    python -m vfw.seeded run <seed-id> [--tier quick] [--props C01,C02]   # apply to /repo, run checks, undo
    python -m vfw.seeded sweep [--tier quick]                    # run every seeded change against its property

``verify`` never touches /repo's working tree: it adds a detached worktree under /tmp, runs the demo on
clean sources (must exit 0), applies the patch, runs the demo again (must exit non-zero) and the baseline
test suite (only the always-failing test_roundtrip may fail), then removes the worktree.
``run`` applies the patch to /repo with ``git apply``, runs the checks and reverts with
``git checkout -- .`` in a finally block (and refuses to start on a dirty tree).
"""
from __future__ import annotations

import argparse
import glob
import json
import os
import shutil
import subprocess
import sys
import tempfile

VERIF = os.path.dirname(os.path.dirname(os.path.abspath(__file__)))
SEEDED = os.path.join(VERIF, "seeded")


def sh(cmd, **kw):
    return subprocess.run(cmd, capture_output=True, text=True, **kw)


def verify(d: str, run_tests: bool = True) -> dict:
    patch, demo = os.path.join(d, "patch.diff"), os.path.join(d, "demo.py")
    wt = tempfile.mkdtemp(prefix="vs-", dir="/tmp")
    os.rmdir(wt)
    out = {"dir": d}
    priv = None
    try:
        r = sh(["git", "-C", "/repo", "worktree", "add", "-q", "--detach", wt, "HEAD"])
        if r.returncode:
            raise SystemExit(r.stderr)
        priv = tempfile.mkdtemp(prefix="vs-tmp-", dir="/tmp")     # some tests use fixed names under $TMPDIR
        env = dict(os.environ, PYTHONPATH=os.path.join(wt, "src"), TMPDIR=priv)
        r0 = sh(["/venv/bin/python", demo], env=env, cwd=wt, timeout=900)
        out["demo_clean_exit"] = r0.returncode
        ra = sh(["git", "-C", wt, "apply", os.path.abspath(patch)])
        out["apply"] = ra.returncode
        if ra.returncode:
            out["apply_err"] = ra.stderr[-500:]
            return out
        r1 = sh(["/venv/bin/python", demo], env=env, cwd=wt, timeout=900)
        out["demo_patched_exit"] = r1.returncode
        out["demo_patched_tail"] = (r1.stdout + r1.stderr)[-400:]
        if run_tests:
            rt = sh(["/venv/bin/python", "-m", "pytest", "-q", "-p", "no:cacheprovider", "--no-cov", "--timeout=900",
                     "--deselect", "tests/test_create.py::test_roundtrip"], env=env, cwd=wt, timeout=1800)
            out["tests_exit"] = rt.returncode
            out["tests_tail"] = rt.stdout.strip().splitlines()[-1] if rt.stdout.strip() else rt.stderr[-300:]
        out["ok"] = (out["demo_clean_exit"] == 0 and out["demo_patched_exit"] not in (0, None)
                     and (not run_tests or out["tests_exit"] == 0))
        return out
    finally:
        sh(["git", "-C", "/repo", "worktree", "remove", "--force", wt])
        shutil.rmtree(wt, ignore_errors=True)
        shutil.rmtree(priv, ignore_errors=True)


def repo_clean() -> bool:
    return sh(["git", "-C", "/repo", "status", "--porcelain"]).stdout.strip() == ""


def run_scratch(seed_id: str, tier: str = "quick", props=None, seeds=("1",)) -> dict:
    """Like run(), but on a scratch copy of /repo (VERIF_REPO) - used while a background run needs /repo untouched."""
    from vfw.mutate import make_copy

    d = os.path.join(SEEDED, seed_id)
    meta = json.load(open(os.path.join(d, "meta.json")))
    # 'checked_by': the property whose check observes the change when that is not the one its author named
    props = props or [meta.get("checked_by") or meta["property"]]
    copy = make_copy()
    res = {"seed": seed_id, "results": {}}
    try:
        r = sh(["patch", "-p1", "-s", "-i", os.path.join(d, "patch.diff")], cwd=copy)
        if r.returncode:
            res["results"]["apply"] = {"exit": 3, "failure": f"STALE: patch no longer applies ({(r.stdout + r.stderr).strip()[:120]})", "summary": [], "stderr": ""}
            return res
        for pid in props:
            for s in seeds:
                rr = sh(["/venv/bin/python", "-m", "vfw.check", pid, "--tier", tier], cwd=VERIF,
                        env=dict(os.environ, VERIF_SEED=s, VERIF_REPO=copy))
                lines = rr.stdout.strip().splitlines()
                fail = [ln for ln in lines if ln.startswith("  failure:")]
                res["results"][f"{pid}@seed{s}"] = {"exit": rr.returncode, "failure": fail[0][:300] if fail else "",
                                                    "summary": [ln for ln in lines if ln.startswith(pid + " ")][-1:],
                                                    "stderr": rr.stderr[-300:] if rr.returncode == 2 else ""}
                if rr.returncode == 1:
                    break
    finally:
        shutil.rmtree(copy, ignore_errors=True)
    return res


def run(seed_id: str, tier: str = "quick", props=None, seeds=("1",)) -> dict:
    d = os.path.join(SEEDED, seed_id)
    meta = json.load(open(os.path.join(d, "meta.json")))
    props = props or [meta.get("checked_by") or meta["property"]]
    if not repo_clean():
        raise SystemExit("/repo has uncommitted changes; refusing to apply a seeded change")
    res = {"seed": seed_id, "results": {}}
    try:
        r = sh(["git", "-C", "/repo", "apply", os.path.join(d, "patch.diff")])
        if r.returncode:
            raise SystemExit(f"cannot apply {seed_id}: {r.stderr}")
        for pid in props:
            for s in seeds:
                rr = sh(["/venv/bin/python", "-m", "vfw.check", pid, "--tier", tier], cwd=VERIF,
                        env=dict(os.environ, VERIF_SEED=s))
                lines = rr.stdout.strip().splitlines()
                fail = [ln for ln in lines if ln.startswith("  failure:")]
                res["results"][f"{pid}@seed{s}"] = {"exit": rr.returncode, "failure": fail[0][:300] if fail else "",
                                                    "summary": [ln for ln in lines if ln.startswith(pid + " ")][-1:]}
                if rr.returncode == 1:
                    break
    finally:
        sh(["git", "-C", "/repo", "checkout", "--", "."])
        assert repo_clean(), "/repo not clean after reverting a seeded change!"
    return res


def adopt(src: str, seed_id: str, prop: str, verify_json: str):
    """Copy a confirmed change into /verif/seeded/<id>/ with its meta.json."""
    v = json.load(open(verify_json))
    if not v.get("ok"):
        raise SystemExit(f"{src}: not confirmed: {v}")
    d = os.path.join(SEEDED, seed_id)
    os.makedirs(d, exist_ok=True)
    for f in ("patch.diff", "demo.py", "notes.md"):
        shutil.copy(os.path.join(src, f), os.path.join(d, f))
    notes = open(os.path.join(src, "notes.md")).read()
    meta = {
        "id": seed_id, "property": prop, "origin": "independent sub-agent given only the property text and a scratch worktree",
        "needs_to_manifest": notes.strip()[:1500],
        "confirmed": {
            "how": "python -m vfw.seeded verify: fresh detached worktree of /repo HEAD under /tmp; demo.py on clean sources, "
                   "git apply patch.diff, demo.py again, baseline pytest (test_roundtrip deselected, private TMPDIR)",
            "demo_clean_exit": v["demo_clean_exit"], "demo_patched_exit": v["demo_patched_exit"],
            "tests": v.get("tests_tail", ""),
        },
    }
    json.dump(meta, open(os.path.join(d, "meta.json"), "w"), indent=1)
    print("adopted", seed_id)


def main():
    ap = argparse.ArgumentParser()
    ap.add_argument("cmd", choices=["verify", "run", "sweep", "adopt"])
    ap.add_argument("--id")
    ap.add_argument("--prop")
    ap.add_argument("--verify-json")
    ap.add_argument("target", nargs="?")
    ap.add_argument("--tier", default="quick")
    ap.add_argument("--props")
    ap.add_argument("--seeds", default="1")
    ap.add_argument("--no-tests", action="store_true")
    ap.add_argument("--scratch", action="store_true", help="use a scratch copy + VERIF_REPO instead of applying to /repo")
    ap.add_argument("--only", help="comma separated seed ids for sweep")
    ap.add_argument("--jobs", type=int, default=1, help="sweep --scratch: changes checked concurrently (each on its own scratch copy)")
    a = ap.parse_args()
    if a.cmd == "adopt":
        adopt(a.target, a.id, a.prop, a.verify_json)
        return 0
    if a.cmd == "verify":
        print(json.dumps(verify(a.target, not a.no_tests), indent=1))
    elif a.cmd == "run":
        fn = run_scratch if a.scratch else run
        print(json.dumps(fn(a.target, a.tier, a.props.split(",") if a.props else None, a.seeds.split(",")), indent=1))
    else:
        rows = []
        if a.scratch and a.jobs > 1:
            from concurrent.futures import ThreadPoolExecutor

            todo = []
            for d in sorted(glob.glob(os.path.join(SEEDED, "*", "meta.json"))):
                sid = os.path.basename(os.path.dirname(d))
                if a.only and sid not in a.only.split(","):
                    continue
                if json.load(open(d)).get("breaks_property") is False:
                    rows.append((sid, "N/A", "kept for the record; does not break the property as stated (see meta.json)"))
                    continue
                todo.append(sid)

            def one(sid):
                r = run_scratch(sid, a.tier, None, a.seeds.split(","))
                caught = any(v["exit"] == 1 for v in r["results"].values())
                row = (sid, "CAUGHT" if caught else "MISSED", next((v["failure"] for v in r["results"].values() if v["failure"]), ""))
                print(row, flush=True)
                return row

            with ThreadPoolExecutor(a.jobs) as ex:
                rows += list(ex.map(one, todo))
            rows.sort()
            print(f"{sum(1 for r in rows if r[1] == 'CAUGHT')}/{sum(1 for r in rows if r[1] != 'N/A')} caught")
            return 0
        for d in sorted(glob.glob(os.path.join(SEEDED, "*", "meta.json"))):
            sid = os.path.basename(os.path.dirname(d))
            if a.only and sid not in a.only.split(","):
                continue
            if json.load(open(d)).get("breaks_property") is False:
                rows.append((sid, "N/A", "kept for the record; does not break the property as stated (see meta.json)"))
                print(rows[-1], flush=True)
                continue
            r = (run_scratch if a.scratch else run)(sid, a.tier, None, a.seeds.split(","))
            caught = any(v["exit"] == 1 for v in r["results"].values())
            rows.append((sid, "CAUGHT" if caught else "MISSED", next((v["failure"] for v in r["results"].values() if v["failure"]), "")))
            print(rows[-1], flush=True)
        print(f"{sum(1 for r in rows if r[1] == 'CAUGHT')}/{sum(1 for r in rows if r[1] != 'N/A')} caught")


if __name__ == "__main__":
    sys.exit(main())
