"""C02 - every cooler any operation writes is a structurally valid CSR collection."""
from __future__ import annotations

import itertools
import os

import numpy as np
from hypothesis import strategies as st

from .. import gen, model, schema
from ..cliutil import run_cli
from ..core import as_violation, Ctx, Violation, call, check, per_shard, run_given, run_machine, given_part, machine_part, run_parts

PID = "C02"
LEVEL = "exploration"
SHARDS = {"quick": 8, "thorough": 16}
BUDGET = {"quick": 85, "thorough": 840}
RULE = (
    "(a) Histories: a Hypothesis RuleBasedStateMachine over a scratch directory applies up to 8 producing "
    "operations (create ordered / unordered, merge of compatible existing collections, coarsen, zoomify, "
    "create_scool, appending several collections to one file, cooler load / cooler cload pairs); after every step "
    "every collection listed in every file is validated by an independent raw-h5py schema validator written from "
    "docs/schema_v3.rst (column lengths = nnz, ids in range, strictly increasing (bin1,bin2), triangularity, "
    "bin1_offset/chrom_offset = run-length indexes, bins contiguous from 0 to the chromosome length, "
    "nbins/nchroms/nnz/sum/bin-type/bin-size consistent). (b) The run-length encoder against itertools.groupby "
    "for generated run-structured arrays x every block size, and index_pixels/index_bins end to end with the "
    "encoder's block size forced to 1..7. (c) One end-to-end creation with >1e6 pixels laid out so that the 1e6 "
    "block edge falls on a row boundary / inside a row. (d) Producers that write no pixel chunk at all (empty iterable, merge / coarsen / zoomify of empty coolers, unordered creation from empty chunks) with extra value columns. Non-trivial = history containing a collection with nnz>=1 "
    "made by a non-create rule or a multi-chunk create; for (b) an array with a run crossing a block edge. "
    "Distinct by sha1 of the history / case."
    ' The small-block index part also stores real-valued counts (scaled by 1/4) and compares Cooler.info with the raw attributes and the exact total; bin tables with a lexically ordered categorical chrom column.'
    " Part pool: coarsen_cooler / zoomify_cooler with a REAL worker pool (nproc 2..4) and chunk sizes 1..9 on coolers of up to 150 pixels (many spans of uneven size per batch): schema + content."
)
ASSUMPTIONS = [
    "'sum' is checked only when a 'count' column is stored (with columns=['x'] the attribute is undefined by the schema)",
]

GROUPS = ["/", "/a", "/b/c"]


# ---------------------------------------------------------------------------
# replayable operations
# ---------------------------------------------------------------------------

class World:
    """Scratch directory + model of the collections in it. Ops are JSON-able dicts."""

    def __init__(self, ctx: Ctx):
        self.ctx = ctx
        ctx.begin_case()       # scratch paths are recycled from history to history (core.Ctx.begin_case)
        self.dir = ctx.tmpdir()
        self.history: list[dict] = []
        self.coll: list[dict] = []     # {"uri", "file", "group", "bt", "rows", "symmetric", "made_by"}
        self.counter = 0
        self.nontrivial = False

    def close(self):
        self.ctx.clean(self.dir)

    # -- helpers -----------------------------------------------------------
    def _file(self, k):
        return os.path.join(self.dir, f"f{k}.cool")

    def _register(self, file, group, bt, rows, symmetric, made_by):
        self.coll = [c for c in self.coll if not (c["file"] == file and c["group"] == group)]
        self.coll.append({"uri": file + "::" + group, "file": file, "group": group, "bt": bt, "rows": rows,
                          "symmetric": symmetric, "made_by": made_by})
        if rows and made_by not in ("create",):
            self.nontrivial = True

    def _drop_file(self, file):
        self.coll = [c for c in self.coll if c["file"] != file]

    def _target(self, op):
        file = self._file(op["file"])
        group = GROUPS[op["group"] % len(GROUPS)]
        mode = "a" if os.path.exists(file) else "w"
        return file, group, mode

    def apply(self, op: dict):
        if self.ctx.shrink_expired():
            return      # shrink budget used up: remaining shrink attempts become no-ops (see core.run_given)
        self.history.append(op)
        try:
            getattr(self, "op_" + op["op"])(op)
            self.check_all()
        except Violation as e:
            self.ctx.note_failure({"part": "history", "ops": self.history}, str(e))
            raise
        except Exception as e:  # noqa: BLE001
            v = as_violation(e)
            if v is None:
                raise
            self.ctx.note_failure({"part": "history", "ops": self.history}, str(v))
            raise v from e

    # -- ops ---------------------------------------------------------------
    def op_create(self, op):
        import cooler

        from ..coolio import pixel_frame

        file, group, mode = self._target(op)
        bt, rows, sym = op["bt"], op["rows"], op["symmetric"]
        chunks = gen.split_at(rows, op["cuts"])
        kw = {}
        if op.get("unsorted"):
            # chunks internally out of order (only inside rows, or completely) + ensure_sorted=True
            rng = np.random.RandomState(op["unsorted_seed"])
            shuffled = []
            for c in chunks:
                if op["unsorted"] == "full":
                    c = [c[t] for t in rng.permutation(len(c)).tolist()]
                else:
                    keys = rng.rand(len(c)).tolist()
                    c = [r for _, r in sorted(zip([(r[0], k) for r, k in zip(c, keys)], c), key=lambda t: t[0])]
                shuffled.append(c)
            px = iter([pixel_frame(c) for c in shuffled])
            kw["ensure_sorted"] = True
            if op["unsorted_seed"] % 4 >= 2:
                kw.update(boundscheck=False, dupcheck=False, triucheck=False)
            if not op["cuts"] and op["unsorted_seed"] % 3 == 0:
                px = pixel_frame(shuffled[0])        # one in-memory table: sorted by create_cooler itself
                kw = {}
        else:
            px = iter([pixel_frame(c) for c in chunks]) if op["cuts"] else pixel_frame(rows)
        bins_df = gen.bins_df(bt)
        if op.get("catlex"):
            # chrom column as produced by .astype("category"): categories in lexical order, not in order of appearance
            bins_df["chrom"] = bins_df["chrom"].astype("category")
        call("create_cooler", cooler.create_cooler, file + "::" + group, bins_df, px, ordered=True,
             symmetric_upper=sym, mode=mode, h5opts={"compression": None}, **kw)
        self._register(file, group, bt, rows, sym, "create-chunks" if sum(1 for c in chunks if c) >= 2 else "create")

    def op_create_unordered(self, op):
        import cooler

        from ..coolio import pixel_frame

        file, group, mode = self._target(op)
        bt, sym = op["bt"], op["symmetric"]
        call("create_cooler(unordered)", cooler.create_cooler, file + "::" + group, gen.bins_df(bt),
             iter([pixel_frame(c) for c in op["chunks"]]), ordered=False, symmetric_upper=sym, mode=mode,
             mergebuf=op["mergebuf"], max_merge=op["max_merge"], h5opts={"compression": None})
        rows = model.merge_rows(op["chunks"], ("sum",))
        self._register(file, group, bt, rows, sym, "unordered")

    def _pick(self, k):
        return self.coll[k % len(self.coll)]

    def op_merge(self, op):
        import cooler

        first = self._pick(op["picks"][0])
        compat = [c for c in self.coll if c["bt"]["edges"] == first["bt"]["edges"] and c["bt"]["names"] == first["bt"]["names"]
                  and c["symmetric"] == first["symmetric"]]
        ins = [first] + [compat[p % len(compat)] for p in op["picks"][1:]]
        file, group, mode = self._target(op)
        if any(c["file"] == file for c in ins):
            # merge_coolers keeps its inputs open for reading while it writes: HDF5 cannot open the
            # same file for writing, so the output of a merge never lives in an input's file
            file = os.path.join(self.dir, "m%d.cool" % len(self.history))
            mode = "w"
        call("merge_coolers", cooler.merge_coolers, file + "::" + group, [c["uri"] for c in ins], op["mergebuf"],
             mode=mode, h5opts={"compression": None})
        rows = model.merge_rows([c["rows"] for c in ins], ("sum",))
        self._register(file, group, first["bt"], rows, first["symmetric"], "merge")

    def op_coarsen(self, op):
        import cooler

        src = self._pick(op["pick"])
        file, group, mode = self._target(op)
        if src["file"] == file and src["group"] == group:
            group = "/k%d" % len(self.history)
        if src["file"] == file:
            mode = "a"
        k = op["k"]
        call("coarsen_cooler", cooler.coarsen_cooler, src["uri"], file + "::" + group, k, op["chunksize"],
             nproc=op.get("nproc", 1), mode=mode, h5opts={"compression": None})
        self._register(file, group, dict(model.coarsen_bins(src["bt"], k), kinds=["?"] * len(src["bt"]["names"])),
                       model.coarsen_rows(src["bt"], src["rows"], k, src["symmetric"], ("sum",)), src["symmetric"], "coarsen")

    def op_zoomify(self, op):
        import cooler

        src = self._pick(op["pick"])
        unit = model.true_binsize(src["bt"]) or 1
        self.counter += 1
        out = os.path.join(self.dir, f"z{self.counter}.mcool")
        mults = sorted(set(op["mults"]))
        call("zoomify_cooler", cooler.zoomify_cooler, src["uri"], out, [unit * m for m in mults], op["chunksize"],
             h5opts={"compression": None})
        for m in sorted(set(mults) | {1}):
            bt_m = model.coarsen_bins(src["bt"], m) if m > 1 else src["bt"]
            rows_m = model.coarsen_rows(src["bt"], src["rows"], m, src["symmetric"], ("sum",)) if m > 1 else src["rows"]
            self._register(out, f"/resolutions/{unit * m}", dict(bt_m, kinds=["?"] * len(bt_m["names"])), rows_m, src["symmetric"], "zoomify")

    def op_scool(self, op):
        import cooler

        from ..coolio import pixel_frame

        self.counter += 1
        out = os.path.join(self.dir, f"s{self.counter}.scool")
        bt = op["bt"]
        cells = {name: pixel_frame(rows) for name, rows in op["cells"].items()}
        call("create_scool", cooler.create_scool, out, gen.bins_df(bt), cells, ordered=True, h5opts={"compression": None})
        for name, rows in op["cells"].items():
            self._register(out, f"/cells/{name}", bt, rows, True, "scool")

    def op_cli_load(self, op):
        bt, rows, sym = op["bt"], op["rows"], op["symmetric"]
        self.counter += 1
        bed = os.path.join(self.dir, f"bins{self.counter}.bed")
        with open(bed, "w") as f:
            for c, s, e in model.bins_rows(bt):
                f.write(f"{c}\t{s}\t{e}\n")
        txt = os.path.join(self.dir, f"px{self.counter}.txt")
        br = model.bins_rows(bt)
        order = np.random.RandomState(op["perm"]).permutation(len(rows)).tolist()
        with open(txt, "w") as f:
            for t in order:
                i, j, v = rows[t][:3]
                if op["fmt"] == "coo":
                    f.write(f"{i}\t{j}\t{v}\n")
                else:
                    f.write(f"{br[i][0]}\t{br[i][1]}\t{br[i][2]}\t{br[j][0]}\t{br[j][1]}\t{br[j][2]}\t{v}\n")
        out = os.path.join(self.dir, f"l{self.counter}.cool")
        args = ["load", "-f", op["fmt"], bed, txt, out, "--chunksize", str(op["chunksize"])]
        if not sym:
            args.append("-N")
        rc, _, exc = run_cli(args)
        check(rc == 0 and exc is None, f"cooler load failed: exit {rc} {exc!r}")
        self._register(out, "/", bt, rows, sym, "cli-load")

    def op_cli_cload(self, op):
        bt = op["bt"]
        self.counter += 1
        bed = os.path.join(self.dir, f"bins{self.counter}.bed")
        with open(bed, "w") as f:
            for c, s, e in model.bins_rows(bt):
                f.write(f"{c}\t{s}\t{e}\n")
        txt = os.path.join(self.dir, f"pairs{self.counter}.txt")
        counts: dict = {}
        with open(txt, "w") as f:
            f.write("## pairs format v1.0\n#columns: readID chr1 pos1 chr2 pos2\n")
            square = bool(op.get("square"))
            for t, (c1, p1, c2, p2) in enumerate(op["pairs"]):
                n1, n2 = bt["names"][c1 % len(bt["names"])], bt["names"][c2 % len(bt["names"])]
                L1 = bt["edges"][c1 % len(bt["names"])][-1]
                L2 = bt["edges"][c2 % len(bt["names"])][-1]
                q1, q2 = p1 % L1, p2 % L2
                # one side may sit on a contig that is not in the bin table: such records are dropped
                unl = op.get("unlisted") and (p1 + p2 + t) % 5 == 0
                w1, w2 = (n1, "chrUn_x") if unl and t % 2 else ("chrUn_x", n2) if unl else (n1, n2)
                f.write(f"r{t}\t{w1}\t{q1 + 1}\t{w2}\t{q2 + 1}\n")
                if unl:
                    continue
                a, b = model.bin_of(bt, n1, q1), model.bin_of(bt, n2, q2)
                key = (a, b) if square else (min(a, b), max(a, b))
                counts[key] = counts.get(key, 0) + 1
        out = os.path.join(self.dir, f"c{self.counter}.cool")
        rc, _, exc = run_cli(["cload", "pairs", bed, txt, out, "-c1", "2", "-p1", "3", "-c2", "4", "-p2", "5",
                              "--chunksize", str(op["chunksize"]), *(["-N"] if op.get("square") else [])])
        check(rc == 0 and exc is None, f"cooler cload pairs failed: exit {rc} {exc!r}")
        self._register(out, "/", bt, [[a, b, v] for (a, b), v in sorted(counts.items())], not op.get("square"), "cli-cload")

    # -- invariant ---------------------------------------------------------
    def check_all(self):
        import h5py

        from cooler.fileops import list_coolers

        for name in sorted(os.listdir(self.dir)):
            path = os.path.join(self.dir, name)
            if not (name.endswith(".cool") or name.endswith(".mcool") or name.endswith(".scool")):
                continue
            listed = call(f"list_coolers({name})", list_coolers, path)
            expected = sorted(c["group"] for c in self.coll if c["file"] == path)
            check(set(expected) <= set(listed), lambda: f"{name}: collections {sorted(set(expected) - set(listed))} are missing from the listing {listed}")
            with h5py.File(path, "r") as f:
                for g in listed:
                    probs = schema.validate(f[g])
                    check(not probs, lambda: f"{name}::{g} (after {self.history[-1]['op']}) violates the schema: {probs[:3]}")
            for c in self.coll:
                if c["file"] != path:
                    continue
                import cooler

                clr = cooler.Cooler(c["uri"])
                df = clr.pixels()[:]
                got = [[a, b, v] for a, b, v in zip(df["bin1_id"].tolist(), df["bin2_id"].tolist(), df["count"].tolist())]
                check(got == [r[:3] for r in c["rows"]], lambda: f"{name}::{c['group']} (made by {c['made_by']}) content differs from the model: {got[:5]} vs {[r[:3] for r in c['rows']][:5]}")


# ---------------------------------------------------------------------------
# Hypothesis state machine
# ---------------------------------------------------------------------------

def _small_cooler_args():
    @st.composite
    def s(draw):
        bt = draw(gen.bin_tables(max_chroms=3, max_bins=4, max_width=6, scale=False))
        n = gen.n_bins(bt)
        sym = draw(st.booleans())
        rows = draw(gen.pixels(n, sym, count=st.integers(1, 99), max_nnz=25))
        return bt, sym, rows
    return s()


def make_machine(ctx: Ctx):
    from hypothesis.stateful import RuleBasedStateMachine, invariant, precondition, rule

    class Producers(RuleBasedStateMachine):
        def __init__(self):
            super().__init__()
            self.w = World(ctx)

        def teardown(self):
            w = self.w
            ctx.record({"part": "history", "ops": w.history}, w.nontrivial,
                       ["history", f"steps={len(w.history)}", *sorted({"op-" + o["op"] for o in w.history})])
            w.close()

        @rule(a=_small_cooler_args(), file=st.integers(0, 2), group=st.integers(0, 2), ncuts=st.integers(0, 4),
              unsorted=st.sampled_from([None, None, "within-rows", "full"]), useed=st.integers(0, 999), catlex=st.booleans(), data=st.data())
        def create(self, a, file, group, ncuts, unsorted, useed, catlex, data):
            bt, sym, rows = a
            cuts = sorted(data.draw(st.lists(st.integers(0, len(rows)), min_size=ncuts, max_size=ncuts)))
            self.w.apply({"op": "create", "bt": bt, "rows": rows, "symmetric": sym, "file": file, "group": group, "cuts": cuts,
                          "unsorted": unsorted, "unsorted_seed": useed, "catlex": catlex})

        @rule(a=_small_cooler_args(), file=st.integers(0, 2), group=st.integers(0, 2), k=st.integers(1, 4),
              mergebuf=st.sampled_from([1, 3, 10**6]), max_merge=st.sampled_from([1, 2, 200]), data=st.data())
        def create_unordered(self, a, file, group, k, mergebuf, max_merge, data):
            bt, sym, rows = a
            chunks = []
            for _ in range(k):
                mask = data.draw(st.lists(st.booleans(), min_size=len(rows), max_size=len(rows)))
                chunks.append([r for r, m in zip(rows, mask) if m])
            self.w.apply({"op": "create_unordered", "bt": bt, "symmetric": sym, "chunks": chunks, "file": file,
                          "group": group, "mergebuf": mergebuf, "max_merge": max_merge})

        @precondition(lambda self: len(self.w.coll) > 0)
        @rule(picks=st.lists(st.integers(0, 50), min_size=1, max_size=4), file=st.integers(0, 2), group=st.integers(0, 2),
              mergebuf=st.sampled_from([1, 4, 10**6]))
        def merge(self, picks, file, group, mergebuf):
            self.w.apply({"op": "merge", "picks": picks, "file": file, "group": group, "mergebuf": mergebuf})

        @precondition(lambda self: len(self.w.coll) > 0)
        @rule(pick=st.integers(0, 50), k=st.integers(2, 6), chunksize=st.sampled_from([1, 2, 5, 10**6]),
              file=st.integers(0, 2), group=st.integers(0, 2), nproc=st.sampled_from([1] * 15 + [2]))
        def coarsen(self, pick, k, chunksize, file, group, nproc):
            self.w.apply({"op": "coarsen", "pick": pick, "k": k, "chunksize": chunksize, "file": file, "group": group, "nproc": nproc})

        @precondition(lambda self: len(self.w.coll) > 0)
        @rule(pick=st.integers(0, 50), mults=st.lists(st.integers(1, 8), min_size=1, max_size=3), chunksize=st.sampled_from([1, 3, 10**6]))
        def zoomify(self, pick, mults, chunksize):
            self.w.apply({"op": "zoomify", "pick": pick, "mults": mults, "chunksize": chunksize})

        @rule(bt=gen.bin_tables(max_chroms=2, max_bins=4, max_width=6, scale=False), ncells=st.integers(1, 3), data=st.data())
        def scool(self, bt, ncells, data):
            n = gen.n_bins(bt)
            cells = {}
            for t in range(ncells):
                cells[f"cell{t}"] = data.draw(gen.pixels(n, True, count=st.integers(1, 9), max_nnz=10))
            self.w.apply({"op": "scool", "bt": bt, "cells": cells})

        @rule(a=_small_cooler_args(), fmt=st.sampled_from(["coo", "bg2"]), chunksize=st.sampled_from([1, 2, 5, 1000]),
              perm=st.integers(0, 1000))
        def cli_load(self, a, fmt, chunksize, perm):
            bt, sym, rows = a
            self.w.apply({"op": "cli_load", "bt": bt, "rows": rows, "symmetric": sym, "fmt": fmt, "chunksize": chunksize, "perm": perm})

        @rule(bt=gen.bin_tables(max_chroms=3, max_bins=4, max_width=6, scale=False),
              pairs=st.lists(st.tuples(st.integers(0, 5), st.integers(0, 200), st.integers(0, 5), st.integers(0, 200)), min_size=0, max_size=15),
              chunksize=st.sampled_from([1, 3, 1000]), square=st.booleans(), unlisted=st.booleans())
        def cli_cload(self, bt, pairs, chunksize, square, unlisted):
            self.w.apply({"op": "cli_cload", "bt": bt, "pairs": [list(p) for p in pairs], "chunksize": chunksize,
                          "square": square, "unlisted": unlisted})

    return Producers


def check_history(case, ctx: Ctx):
    w = World(ctx)
    try:
        for op in case["ops"]:
            w.history.append(op)
            getattr(w, "op_" + op["op"])(op)
            w.check_all()
    finally:
        w.close()
    ctx.record(case, w.nontrivial, ["history-replay"])


# ---------------------------------------------------------------------------
# (b) run-length encoder and index builders
# ---------------------------------------------------------------------------

@st.composite
def rle_cases(draw):
    runs = draw(st.lists(st.tuples(st.integers(0, 6), st.integers(1, 6)), min_size=0, max_size=10))
    if draw(st.booleans()):
        runs = sorted(runs)
    arr = [v for v, ln in runs for _ in range(ln)]
    return {"part": "rle", "array": arr, "dtype": draw(st.sampled_from(["int64", "int32", "int8"]))}


def check_rle(case, ctx: Ctx):
    from cooler.util import rlencode

    arr = np.array(case["array"], dtype=case["dtype"])
    exp = [(v, len(list(g))) for v, g in itertools.groupby(case["array"])]
    starts, pos = [], 0
    for v, ln in exp:
        starts.append(pos)
        pos += ln
    n_nt = 0
    for cs in [None, *range(1, len(arr) + 3)]:
        s, l, v = call(f"rlencode(chunksize={cs})", rlencode, arr, cs)
        check(s.tolist() == starts and l.tolist() == [e[1] for e in exp] and v.tolist() == [e[0] for e in exp],
              lambda: f"rlencode({case['array']}, chunksize={cs}) = starts {s.tolist()} lengths {l.tolist()} values {v.tolist()}; "
                      f"groupby gives starts {starts} lengths {[e[1] for e in exp]} values {[e[0] for e in exp]}")
        if cs is not None and any(st_ < b < st_ + ln for st_, (_, ln) in zip(starts, exp) for b in range(cs, len(arr), cs)):
            n_nt += 1
    ctx.record(case, n_nt > 0, ["rle"], n_eval=len(arr) + 3, n_nontrivial=n_nt)


@st.composite
def index_cases(draw):
    bt = draw(gen.bin_tables(max_chroms=4, max_bins=5, max_width=6, scale=False))
    n = gen.n_bins(bt)
    sym = draw(st.booleans())
    rows = draw(gen.pixels(n, sym, count=st.integers(1, 9)))
    return {"part": "index", "bt": bt, "symmetric": sym, "rows": rows, "block": draw(st.sampled_from([1, 2, 3, 4, 5, 6, 7])),
            "cuts": draw(gen.cuts(len(rows), 4)), "unsorted": draw(st.sampled_from([None, None, "within-rows"])),
            "useed": draw(st.integers(0, 999))}


def check_index(case, ctx: Ctx):
    import h5py

    import cooler
    import cooler.create._create as cc
    from cooler.util import rlencode as real

    from ..coolio import pixel_frame

    block = case["block"]
    path = ctx.tmp(".cool")
    orig = cc.rlencode
    cc.rlencode = lambda array, chunksize=None: real(array, block)
    try:
        chunks = gen.split_at(case["rows"], case["cuts"])
        kw = {}
        if case.get("unsorted"):
            rng = np.random.RandomState(case["useed"])
            chunks = [[r for _, r in sorted(zip([(r[0], k) for r, k in zip(c, rng.rand(len(c)).tolist())], c), key=lambda t: t[0])]
                      for c in chunks]
            kw["ensure_sorted"] = True
            if case.get("useed", 0) % 4 >= 2:
                # the optional input checks switched off together with the sort request: the chunks must still be sorted
                kw.update(boundscheck=False, dupcheck=False, triucheck=False)
        bdf = gen.bins_df(case["bt"])
        if case.get("useed", 0) % 2:
            bdf["chrom"] = bdf["chrom"].astype("category")      # categories in lexical order
        # a third of the cases stores real-valued counts (every count scaled by 1/4: the total is not integral)
        fl = case.get("useed", 0) % 3 == 0
        if fl:
            chunks = [[[r[0], r[1], r[2] * 0.25, *r[3:]] for r in c] for c in chunks]
            kw["dtypes"] = {"count": np.dtype("float64")}
        if case.get("unsorted") and not case["cuts"] and case.get("useed", 0) % 5 < 3:
            # ONE in-memory table grouped by bin1_id with bin2_id in arbitrary order inside the groups (no sort request:
            # create_cooler sorts in-memory tables itself)
            kw.pop("ensure_sorted", None)
            px = pixel_frame(chunks[0])
        else:
            px = iter([pixel_frame(c) for c in chunks])
        call("create_cooler (small index blocks)", cooler.create_cooler, path, bdf,
             px, ordered=True, symmetric_upper=case["symmetric"], h5opts={"compression": None}, **kw)
    finally:
        cc.rlencode = orig
    try:
        with h5py.File(path, "r") as f:
            probs = schema.validate(f["/"])
            raw = {k: f.attrs[k] for k in ("nbins", "nchroms", "nnz", "sum", "bin-type", "storage-mode")}
        check(not probs, lambda: f"index block size {block}: {probs[:3]}")
        # the recorded summary reads the same through the library's metadata query as in the file
        info = call("Cooler.info", lambda: cooler.Cooler(path).info)
        total = sum(r[2] for c in chunks for r in c)
        for k, v in raw.items():
            v = v.decode() if isinstance(v, bytes) else v
            check(info.get(k) == v, lambda: f"Cooler.info[{k!r}] = {info.get(k)!r}, the file records {v!r}")
        check(info["sum"] == total, lambda: f"Cooler.info['sum'] = {info['sum']!r}, the stored {'real-valued ' if fl else ''}counts add up to {total!r}")
    finally:
        ctx.clean(path)
    b1 = [r[0] for r in case["rows"]]
    crossing = any(b1[t] == b1[t - 1] for t in range(block, len(b1), block))
    ctx.record(case, crossing, ["index", f"block={block}"])


# ---------------------------------------------------------------------------
# (c) more than 1e6 pixels
# ---------------------------------------------------------------------------

def check_big(case, ctx: Ctx):
    """Square matrix with > 1e6 pixels; 'boundary': pixel 1e6 starts a row; 'inside': pixel 1e6 is mid-row."""
    import h5py
    import pandas as pd

    import cooler

    if case["layout"] == "boundary":
        n, full_rows = 1250, 800          # 800 * 1250 = 1_000_000 -> row 800 starts exactly at the block edge
    else:
        n, full_rows = 1100, 909          # 909 * 1100 = 999_900 -> pixel 1_000_000 is inside row 909
    extra_rows = case.get("extra_rows", 40)
    i = np.repeat(np.arange(full_rows + extra_rows), n)
    j = np.tile(np.arange(n), full_rows + extra_rows)
    # thin out the rows after the edge so that they are not all full, and leave two rows empty
    keep = np.ones(len(i), dtype=bool)
    tail = i >= full_rows
    keep[tail & ((j % 3 == 1) | (i == full_rows + 2) | (i == full_rows + 5))] = False
    i, j = i[keep], j[keep]
    cnt = ((i * 7 + j * 3) % 11 + 1).astype(np.int32)
    bins = pd.DataFrame({"chrom": ["c1"] * (n // 2) + ["c2"] * (n - n // 2),
                         "start": np.r_[np.arange(n // 2) * 10, np.arange(n - n // 2) * 10],
                         "end": np.r_[np.arange(1, n // 2 + 1) * 10, np.arange(1, n - n // 2 + 1) * 10]})
    px = pd.DataFrame({"bin1_id": i, "bin2_id": j, "count": cnt})
    path = ctx.tmp(".cool")
    try:
        step = case.get("chunk", 300_000)
        chunks = (px.iloc[a:a + step] for a in range(0, len(px), step))
        call("create_cooler(>1e6 pixels)", cooler.create_cooler, path, bins, chunks, ordered=True,
             symmetric_upper=False, h5opts={"compression": None})
        with h5py.File(path, "r") as f:
            probs = schema.validate(f["/"])
            check(not probs, lambda: f">1e6 pixels ({case['layout']}): {probs[:3]}")
            check(np.array_equal(f["pixels/bin1_id"][:], i) and np.array_equal(f["pixels/count"][:], cnt), "stored pixels differ")
        clr = cooler.Cooler(path)
        r = full_rows
        A = clr.matrix(balance=False, sparse=True)[r - 1:r + 3, :]
        want = np.zeros((4, n), dtype=np.int64)
        sel = (i >= r - 1) & (i < r + 3)
        want[i[sel] - (r - 1), j[sel]] = cnt[sel]
        check(np.array_equal(A.toarray(), want), "rows around the 1e6 block edge read back differently")
        if case.get("derive"):
            out = ctx.tmp(".cool")
            try:
                call("coarsen_cooler(>1e6 pixels)", cooler.coarsen_cooler, path, out, 2, 400_000)
                with h5py.File(out, "r") as f:
                    probs = schema.validate(f["/"])
                check(not probs, lambda: f"coarsened >1e6: {probs[:3]}")
                check(cooler.Cooler(out).info["sum"] == int(cnt.sum()), "coarsened total differs")
                m = ctx.tmp(".cool")
                call("merge_coolers(>1e6 pixels)", cooler.merge_coolers, m, [path, path], 700_000)
                with h5py.File(m, "r") as f:
                    probs = schema.validate(f["/"])
                    check(not probs, lambda: f"merged >1e6: {probs[:3]}")
                    check(np.array_equal(f["pixels/count"][:], cnt * 2), "merged counts differ")
                ctx.clean(m)
            finally:
                ctx.clean(out)
    finally:
        ctx.clean(path)
    ctx.record(case, True, ["big", "big-" + case["layout"]], n_eval=1)


# ---------------------------------------------------------------------------
# (d) producers that write no pixel chunk at all, with extra value columns
# ---------------------------------------------------------------------------

@st.composite
def empty_cases(draw):
    bt = draw(gen.bin_tables(max_chroms=3, max_bins=5, max_width=6, scale=False))
    return {"part": "empty", "bt": bt, "symmetric": draw(st.booleans()),
            "producer": draw(st.sampled_from(["create-iter", "create-frame", "merge", "coarsen", "zoomify", "unordered"])),
            "cols": draw(st.sampled_from([["count"], ["count", "x"], ["count", "x", "y"], ["x"]])),
            "k": draw(st.integers(2, 4))}


def check_empty(case, ctx: Ctx):
    import h5py
    import pandas as pd

    import cooler
    from cooler.fileops import list_coolers

    bt, sym, cols = case["bt"], case["symmetric"], case["cols"]
    allc = sorted(set(cols) | {"count"})
    empty = pd.DataFrame({"bin1_id": np.array([], dtype=np.int64), "bin2_id": np.array([], dtype=np.int64),
                          **{c: np.array([], dtype=float if c != "count" else np.int32) for c in ("count", "x", "y")}})
    d = ctx.tmpdir()
    try:
        bins = gen.bins_df(bt)
        out = os.path.join(d, "out.cool")
        kw = {} if cols == ["count"] else {"columns": list(cols)}
        prod = case["producer"]
        if prod == "create-iter":
            call("create_cooler(empty iterable)", cooler.create_cooler, out, bins, iter([]), ordered=True, symmetric_upper=sym, **kw)
        elif prod == "create-frame":
            call("create_cooler(empty frame)", cooler.create_cooler, out, bins, empty, symmetric_upper=sym, **kw)
        elif prod == "unordered":
            call("create_cooler(unordered, empty chunks)", cooler.create_cooler, out, bins, iter([empty, empty]), ordered=False,
                 symmetric_upper=sym, **kw)
        else:
            srcs = []
            for t in range(2):
                p = os.path.join(d, f"in{t}.cool")
                call("create empty input", cooler.create_cooler, p, bins, empty, symmetric_upper=sym, columns=["count", "x", "y"])
                srcs.append(p)
            if prod == "merge":
                call("merge_coolers(empty inputs)", cooler.merge_coolers, out, srcs, 1000, **kw)
            elif prod == "coarsen":
                call("coarsen_cooler(empty input)", cooler.coarsen_cooler, srcs[0], out, case["k"], 1000, **kw)
            else:
                out = os.path.join(d, "out.mcool")
                unit = model.true_binsize(bt) or 1
                call("zoomify_cooler(empty input)", cooler.zoomify_cooler, srcs[0], out, [unit * case["k"]], 1000,
                     **({"columns": [c for c in cols]} if cols != ["count"] else {}))
        with h5py.File(out, "r") as f:
            for g in list_coolers(out):
                probs = schema.validate(f[g])
                check(not probs, lambda: f"{prod} with columns {cols} on empty input: {g} violates the schema: {probs[:3]}")
                check(int(f[g].attrs["nnz"]) == 0, "nnz of an empty result")
    finally:
        ctx.clean(d)
    ctx.record(case, len(cols) > 1 and prod not in ("create-frame",), ["empty", "empty-" + prod, "cols=" + "+".join(cols)])


@st.composite
def pool_cases(draw):
    bt = draw(gen.bin_tables(max_chroms=2, max_bins=12, max_width=6, scale=False))
    n = gen.n_bins(bt)
    sym = draw(st.booleans())
    rows = draw(gen.pixels(n, sym, count=st.integers(1, 99), max_nnz=150))
    return {"part": "pool", "bt": bt, "symmetric": sym, "rows": rows, "k": draw(st.integers(2, 3)),
            "chunksize": draw(st.sampled_from([1, 2, 3, 5, 9])), "nproc": draw(st.sampled_from([2, 2, 3, 4])),
            "producer": draw(st.sampled_from(["coarsen", "coarsen", "zoomify"]))}


def check_pool(case, ctx: Ctx):
    """Producers that hand their spans to a REAL worker pool (nproc > 1) with chunk sizes far below the pixel count: many
    spans of uneven size per batch.  The output must satisfy the schema and hold the model's content whatever the pool does."""
    import h5py

    import cooler
    from cooler.fileops import list_coolers

    from ..coolio import create_from_model

    bt, rows, sym, k = case["bt"], case["rows"], case["symmetric"], case["k"]
    d = ctx.tmpdir()
    try:
        base = os.path.join(d, "base.cool")
        call("create base", create_from_model, base, bt, rows, sym, h5opts={"compression": None})
        if case["producer"] == "coarsen":
            out = os.path.join(d, "out.cool")
            call(f"coarsen_cooler(k={k}, chunksize={case['chunksize']}, nproc={case['nproc']})", cooler.coarsen_cooler, base, out, k,
                 case["chunksize"], nproc=case["nproc"], h5opts={"compression": None})
            levels = {"/": k}
        else:
            out = os.path.join(d, "out.mcool")
            unit = model.true_binsize(bt) or 1
            call(f"zoomify_cooler(x{k}, x{2 * k}, chunksize={case['chunksize']}, nproc={case['nproc']})", cooler.zoomify_cooler, base, out,
                 [unit * k, unit * 2 * k], case["chunksize"], nproc=case["nproc"], h5opts={"compression": None})
            levels = {f"/resolutions/{unit * k}": k, f"/resolutions/{unit * 2 * k}": 2 * k}
        with h5py.File(out, "r") as f:
            for g in list_coolers(out):
                probs = schema.validate(f[g])
                check(not probs, lambda: f"{case['producer']} with nproc={case['nproc']}, chunksize={case['chunksize']}: {g} violates the schema: {probs[:3]}")
        for g, m in levels.items():
            clr = cooler.Cooler(out + "::" + g)
            df = clr.pixels()[:]
            got = [[a, b, v] for a, b, v in zip(df["bin1_id"].tolist(), df["bin2_id"].tolist(), df["count"].tolist())]
            want = model.coarsen_rows(bt, [r[:3] for r in rows], m, sym, ("sum",))
            check(got == want, lambda: f"{case['producer']} with nproc={case['nproc']}, chunksize={case['chunksize']}: {g} holds {got[:6]}, want {want[:6]}")
    finally:
        ctx.clean(d)
    ctx.record(case, len(rows) > 2 * case["chunksize"], ["pool", "pool-" + case["producer"], f"pool-nproc={case['nproc']}"])


CHECKS = {"history": check_history, "rle": check_rle, "index": check_index, "big": check_big, "empty": check_empty, "pool": check_pool}


def replay(ctx: Ctx, case):
    CHECKS[case["part"]](case, ctx)


def run(ctx: Ctx):
    q = ctx.tier == "quick"
    parts = []
    if ctx.shard in (0, 1) or not q:
        layout = "boundary" if ctx.shard % 2 == 0 else "inside"
        case = {"part": "big", "layout": layout, "derive": (not q) and ctx.shard < 4}
        if ctx.shard < 4 or q:
            try:
                check_big(case, ctx)
            except Violation as e:
                ctx.add_violation(case, str(e))
                return
    parts.append(given_part(ctx, "rle", rle_cases(), check_rle, per_shard(ctx, 4000 if q else 120000), batch=500))
    parts.append(given_part(ctx, "index", index_cases(), check_index, per_shard(ctx, 1200 if q else 40000), batch=100))
    parts.append(given_part(ctx, "empty", empty_cases(), check_empty, per_shard(ctx, 240 if q else 4000), batch=30))
    parts.append(given_part(ctx, "pool", pool_cases(), check_pool, per_shard(ctx, 96 if q else 1600), batch=6))
    parts.append(machine_part(ctx, "history", lambda: make_machine(ctx), per_shard(ctx, 120 if q else 2400), steps=8, batch=5))
    run_parts(ctx, parts)
