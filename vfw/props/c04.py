"""C04 - genomic ranges map to exactly the bins that cover them."""
from __future__ import annotations

import numpy as np
from hypothesis import strategies as st

from .. import gen, model
from ..core import Ctx, Violation, call, check, must_raise, per_shard, run_given

PID = "C04"
LEVEL = "exploration"
SHARDS = {"quick": 8, "thorough": 16}
BUDGET = {"quick": 75, "thorough": 840}
RULE = (
    "Outer cases: Hypothesis-generated bin tables of every layout kind (fixed with short last bin, variable, "
    "one-bin chromosomes, near-uniform incl. longer last bin) with a generated matrix; for every chromosome with "
    "L<=40 ALL (start,end), 0<=start<=end<=L are evaluated (longer chromosomes: all bin edges +-1 and the ends), "
    "each in a rotating spelling (tuple, open-ended tuple, UCSC string, with thousands separators, 'c:s-', bare "
    "name). Oracle: linear scan for the bins overlapping the range. Every region is one evaluation of "
    "extent/offset; every 5th also of bins/pixels/matrix fetch (1 and 2 regions) and GenomeSegmentation/bedslice. "
    "Non-trivial = an end point on a bin edge, inside the last bin, at 0 or L, or a zero-length range, on a "
    "non-fixed table or a chromosome with a short last bin. Distinct by (digest of table+matrix, region)."
    ' Empty ranges are also evaluated through bins()/pixels()/matrix().fetch; a history re-creates the same path with other bin boundaries (same bin counts) before the queries.'
)
ASSUMPTIONS = [
    "zero-length range at a chromosome end: 'the bin containing the position' is read as closed on the right (DESIGN section 4 rule 7)",
]


@st.composite
def cases(draw, max_chroms=4, max_bins=6, max_width=8):
    bt = draw(gen.bin_tables(max_chroms=max_chroms, max_bins=max_bins, max_width=max_width, scale=False,
                             all_fixed_prob=0.3))
    if draw(st.integers(0, 6)) == 0:
        s = draw(st.sampled_from([1000, 100000, "max", "max"]))
        if s == "max":
            # the longest chromosome ends just below 2**31 (lengths and coordinates are stored as 32-bit integers):
            # length + bin width no longer fits that type
            s = (2**31 - 1) // max(e[-1] for e in bt["edges"])
        bt = dict(bt, edges=[[x * s for x in e] for e in bt["edges"]], b=bt["b"] * s)
    n = gen.n_bins(bt)
    symmetric = draw(st.booleans())
    rows = draw(gen.pixels(n, symmetric, count=st.integers(1, 99)))
    return {"part": "extent", "bt": bt, "symmetric": symmetric, "rows": rows,
            "store": draw(st.sampled_from(["path", "handle"])), "rot": draw(st.integers(0, 6)),
            # history: after the first chromosome has been queried, chromosomes are renamed on the same object
            # (cyclic shift of the existing names, or fresh names) and the remaining queries use the new names
            "rename": draw(st.sampled_from([None, None, "shift", "fresh"])),
            # history: the same path first held a collection with the same chromosome names and the same number of bins
            # per chromosome but other bin boundaries, and was queried, before the collection under test was written
            "prior_layout": draw(st.sampled_from([None, None, "w", "a"]))}


def _regions(name, e):
    L = e[-1]
    if L <= 40:
        for s in range(L + 1):
            for t in range(s, L + 1):
                yield s, t
    else:
        pts = sorted(p for p in {0, 1, L - 1, L, *[x + d for x in e for d in (-1, 0, 1)]} if 0 <= p <= L)
        for a in pts:
            for b in pts:
                if a <= b:
                    yield a, b


def _spell(name, s, t, L, rot):
    """Returns (region argument, label). Falls back to the plain tuple when a spelling does not apply."""
    k = rot % 7
    if k == 1 and t == L:
        return (name, s, None), "tuple-open-end"
    if k == 2 and s == 0:
        return (name, None, t), "tuple-open-start"
    if k == 3:
        return f"{name}:{s}-{t}", "string"
    if k == 4:
        return f"{name}:{s:,}-{t:,}", "string-commas"
    if k == 5 and t == L:
        return f"{name}:{s}-", "string-open"
    if k == 6 and s == 0 and t == L:
        return name, "bare"
    return (name, s, t), "tuple"


def check_extent(case, ctx: Ctx):
    import h5py
    import pandas as pd

    import cooler
    from cooler.util import GenomeSegmentation, bedslice

    from ..coolio import create_from_model

    bt, rows, symmetric = case["bt"], case["rows"], case["symmetric"]
    n = gen.n_bins(bt)
    F = model.dense(rows, n, symmetric, 0, dtype=np.int64)
    brow = model.bins_rows(bt)
    offs = model.chrom_offsets(bt)
    path = ctx.tmp(".cool")
    fh = None
    n_eval = n_nt = 0
    cls: dict[str, int] = {}
    try:
        # (the earlier layout doubles every coordinate: only where that still fits the 32-bit coordinate type)
        prior = case.get("prior_layout") if 2 * max(e[-1] for e in bt["edges"]) < 2**31 else None
        if prior:
            bt0 = dict(bt, edges=[[2 * x for x in e] for e in bt["edges"]], b=bt["b"] * 2)
            call("create (earlier collection at the same path)", create_from_model, path, bt0, rows, symmetric, h5opts={"compression": None})
            c0 = cooler.Cooler(path)
            for nm, e in zip(bt0["names"], bt0["edges"]):
                for s0, t0 in ((0, e[-1]), (e[-1] // 2, e[-1]), (1, max(2, e[-1] - 1)), (e[len(e) // 2], e[-1])):
                    if s0 < t0:
                        got0 = call(f"extent(({nm!r}, {s0}, {t0})) on the earlier collection", c0.extent, (nm, s0, t0))
                        want0 = model.overlap_bins(bt0, nm, s0, t0)
                        check((int(got0[0]), int(got0[1])) == want0, lambda: f"extent(({nm!r}, {s0}, {t0})) = {got0}, want {want0}")
            del c0
        call("create", create_from_model, path, bt, rows, symmetric, h5opts={"compression": None},
             **({"mode": prior} if prior else {}))
        if case["store"] == "handle":
            fh = h5py.File(path, "r")
            clr = cooler.Cooler(fh)
        else:
            clr = cooler.Cooler(path)
        bdf = gen.bins_df(bt)
        cs = gen.chromsizes_series(bt)
        gs = GenomeSegmentation(cs, bdf)
        grouped = bdf.groupby("chrom", sort=False)
        msel = clr.matrix(balance=False)
        psel = clr.pixels()
        bsel = clr.bins()
        rot = case["rot"]
        names_now = list(bt["names"])
        for ci, e in enumerate(bt["edges"]):
            if ci == 1 and case.get("rename") and case["store"] == "path":
                if case["rename"] == "shift":
                    m = dict(zip(names_now, names_now[1:] + names_now[:1]))
                else:
                    m = {nm: f"renamed{t}" for t, nm in enumerate(names_now)}
                call(f"rename_chroms({m})", cooler.rename_chroms, clr, m)
                names_now = [m[x] for x in names_now]
                bt = dict(bt, names=names_now)
                brow = model.bins_rows(bt)
                bdf = gen.bins_df(bt)
                cs = gen.chromsizes_series(bt)
                gs = GenomeSegmentation(cs, bdf)
                grouped = bdf.groupby("chrom", sort=False)
            name = names_now[ci]
            L = e[-1]
            c_lo, c_hi = offs[ci], offs[ci + 1]
            short_last = len(e) >= 3 and (e[-1] - e[-2]) != (e[1] - e[0])
            nonfixed = bt["kinds"][ci] != "fixed"
            for s, t in _regions(name, e):
                rot += 1
                reg, label = _spell(name, s, t, L, rot)
                got = call(f"extent({reg!r})", clr.extent, reg)
                got = (int(got[0]), int(got[1]))
                goff = int(call(f"offset({reg!r})", clr.offset, reg))
                if s < t:
                    want = model.overlap_bins(bt, name, s, t)
                    if got != want:
                        raise Violation(f"extent({reg!r}) = {got}, bins overlapping [{s},{t}) of {name} are {want}; "
                                        f"edges {dict(zip(bt['names'], bt['edges']))}")
                    if goff != want[0]:
                        raise Violation(f"offset({reg!r}) = {goff}, want {want[0]}")
                else:
                    lo, hi = got
                    ok = 0 <= hi - lo <= 1
                    if ok and hi - lo == 1:
                        ok = c_lo <= lo < c_hi and brow[lo][1] <= s <= brow[lo][2]
                    if not ok:
                        raise Violation(f"extent({reg!r}) = {got} for an empty range at {s} of {name}; "
                                        f"edges {dict(zip(bt['names'], bt['edges']))}")
                    if rot % 3 == 0:
                        # the table and matrix fetches accept the empty range too and select the same (at most one) bin
                        bf = call(f"bins().fetch({reg!r}) [empty range]", bsel.fetch, reg)
                        check(bf.index.tolist() == list(range(lo, hi)),
                              lambda: f"bins().fetch({reg!r}) rows {bf.index.tolist()}, extent says {list(range(lo, hi))}")
                        pf = call(f"pixels().fetch({reg!r}) [empty range]", psel.fetch, reg)
                        wantp = [(k, r[0], r[1], r[2]) for k, r in enumerate(rows) if lo <= r[0] < hi]
                        gotp = list(zip(pf.index.tolist(), pf["bin1_id"].tolist(), pf["bin2_id"].tolist(), pf["count"].tolist()))
                        check(gotp == wantp, lambda: f"pixels().fetch({reg!r}) = {gotp[:5]}, rows of bins {lo}..{hi} are {wantp[:5]}")
                        A = call(f"matrix().fetch({reg!r}) [empty range]", msel.fetch, reg)
                        check(np.array_equal(A, F[lo:hi, lo:hi]), lambda: f"matrix().fetch({reg!r}) has shape {A.shape}, extent says {(hi - lo, hi - lo)}")
                        n_eval += 3
                        cls["empty-range-fetch"] = cls.get("empty-range-fetch", 0) + 1
                n_eval += 1
                cls[label] = cls.get(label, 0) + 1
                on_edge = s in e or t in e
                in_last = len(e) >= 2 and (e[-2] < s or e[-2] < t)
                if (on_edge or in_last or s == t) and (nonfixed or short_last):
                    n_nt += 1
                if rot % 5 == 0 and s < t:
                    lo, hi = want
                    # table fetches
                    bf = call(f"bins().fetch({reg!r})", bsel.fetch, reg)
                    check(bf.index.tolist() == list(range(lo, hi)) and
                          [(str(a), int(b), int(c)) for a, b, c in zip(bf["chrom"], bf["start"], bf["end"])] == brow[lo:hi],
                          lambda: f"bins().fetch({reg!r}) rows {bf.index.tolist()} want {list(range(lo, hi))}")
                    pf = call(f"pixels().fetch({reg!r})", psel.fetch, reg)
                    wantp = [(k, r[0], r[1], r[2]) for k, r in enumerate(rows) if lo <= r[0] < hi]
                    gotp = list(zip(pf.index.tolist(), pf["bin1_id"].tolist(), pf["bin2_id"].tolist(), pf["count"].tolist()))
                    check(gotp == wantp, lambda: f"pixels().fetch({reg!r}) = {gotp[:5]} want {wantp[:5]}")
                    A = call(f"matrix().fetch({reg!r})", msel.fetch, reg)
                    check(np.array_equal(A, F[lo:hi, lo:hi]), lambda: f"matrix().fetch({reg!r}) differs from full[{lo}:{hi},{lo}:{hi}]")
                    check(np.array_equal(A, msel[lo:hi, lo:hi]), f"matrix().fetch({reg!r}) != matrix()[{lo}:{hi},{lo}:{hi}]")
                    # second region: another chromosome (or a fixed sub-range of this one)
                    cj = (ci + 1 + rot) % len(bt["names"])
                    n2, e2 = bt["names"][cj], bt["edges"][cj]
                    s2 = e2[-1] // 3
                    t2 = max(s2 + 1, e2[-1] - e2[-1] // 4)
                    reg2 = (n2, s2, t2) if rot % 2 else f"{n2}:{s2}-{t2}"
                    lo2, hi2 = model.overlap_bins(bt, n2, s2, t2)
                    A2 = call(f"matrix().fetch({reg!r}, {reg2!r})", msel.fetch, reg, reg2)
                    check(np.array_equal(A2, F[lo:hi, lo2:hi2]),
                          lambda: f"matrix().fetch({reg!r}, {reg2!r}) differs from full[{lo}:{hi},{lo2}:{hi2}]")
                    check(np.array_equal(A2, msel[lo:hi, lo2:hi2]), "two-region fetch != index-slice query")
                    # overlap selection on a bin frame
                    g = call(f"GenomeSegmentation.fetch({reg!r})", gs.fetch, reg)
                    check(g.index.tolist() == list(range(lo, hi)),
                          lambda: f"GenomeSegmentation.fetch({reg!r}) rows {g.index.tolist()} want {list(range(lo, hi))}")
                    g2 = call(f"bedslice({reg!r})", bedslice, grouped, cs, reg)
                    check(g2.index.tolist() == list(range(lo, hi)),
                          lambda: f"bedslice({reg!r}) rows {g2.index.tolist()} want {list(range(lo, hi))}")
                    n_eval += 6
            # beyond the chromosome and unknown names are refused (C19 decides the parser itself)
            must_raise(f"extent(({name!r}, 0, {L + 1}))", clr.extent, (name, 0, L + 1))
        must_raise("extent of an unknown chromosome", clr.extent, ("no-such-chrom-xyz", 0, 1))
    finally:
        if fh is not None:
            fh.close()
        ctx.clean(path)
    for k, v in cls.items():
        ctx.classes["spell-" + k] += v
    kinds = sorted(set(bt["kinds"]))
    ctx.record(case, n_nt > 0, ["extent", *["kind-" + k for k in kinds], "store-" + case["store"],
                                "reported-fixed" if model.true_binsize(bt) else "reported-variable",
                                "renamed-" + str(case.get("rename")) if case["store"] == "path" else "renamed-None",
                                "after-other-layout-at-same-path" if prior else "fresh-path", "near-2^31" if max(e[-1] for e in bt["edges"]) > 2**30 else "small-coordinates"],
               n_eval=n_eval, n_nontrivial=n_nt)


CHECKS = {"extent": check_extent}


def replay(ctx: Ctx, case):
    CHECKS[case["part"]](case, ctx)


def run(ctx: Ctx):
    q = ctx.tier == "quick"
    if not run_given(ctx, "extent", cases(3, 5, 7), check_extent, per_shard(ctx, 200 if q else 4000), batch=10):
        return
    ctx.exhaustive_subdomains["all (start,end) on every chromosome with L<=40 of each generated table"] = 1
    if not q:
        run_given(ctx, "extent-wide", cases(6, 8, 12), check_extent, per_shard(ctx, 1200), batch=10)
