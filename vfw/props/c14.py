"""C14 - table selectors and bin annotation return the rows and coordinates asked for."""
from __future__ import annotations

import numpy as np
from hypothesis import strategies as st

from .. import gen, model
from ..core import Ctx, Violation, call, check, per_shard, run_given, given_part, machine_part, run_parts

PID = "C14"
LEVEL = "exploration"
SHARDS = {"quick": 8, "thorough": 16}
BUDGET = {"quick": 70, "thorough": 780}
RULE = (
    "Selector cases: generated cooler (extra bin columns, enum or integer chromosome encoding, the latter both by "
    "rewriting bins/chrom as the schema's plain-int form and, thorough tier, through >=500 long contig names) x "
    "table (chroms, bins, pixels, pixels joined) x row range spelling (positive, negative, open, empty, scalar) x "
    "column selection (none, one name -> Series, list in any order). Annotation cases: pixel subset in any order "
    "with repeats and arbitrary index, few and many rows relative to the bin count, bin1 only / bin2 only / both, "
    "bins given as full frame, selector, column-restricted selector or a contiguous slice covering the needed "
    "ids, replace on/off, id dtype int64/int32/uint32. Oracle: the model tables. Non-trivial = a partial bin "
    "table whose first index is > 0 with unsorted pixels, or a negative bound combined with a column subset, or "
    "integer chromosome encoding. Distinct by sha1 of the canonical case."
    " Also: explicit step 1; negative bounds beyond the start of the table; an integer bin column whose name contains 'chrom'; annotate() with replace left to its default."
    ' Part dump-join: `cooler dump --join / --annotate` with row and column regions in either order, --fill-lower and square storage, judged by the text-dump oracle of C16.'
)
ASSUMPTIONS = [
    "a partial bin table passed to annotate is a contiguous slice of the stored table indexed by bin id and covering the referenced ids",
]


@st.composite
def coolers(draw, max_chroms=4, max_bins=5):
    bt = draw(gen.bin_tables(max_chroms=max_chroms, max_bins=max_bins, allow_space=True))
    n = gen.n_bins(bt)
    symmetric = draw(st.booleans())
    rows = draw(gen.pixels(n, symmetric, count=st.integers(1, 999), extra_cols=[gen.DYADIC]))
    return {"bt": bt, "symmetric": symmetric, "rows": rows,
            "encoding": draw(st.sampled_from(["enum", "enum", "int"])),
            "group": draw(st.sampled_from(["/", "/x/y"]))}


@st.composite
def row_key(draw, n):
    lo = draw(st.integers(0, n))
    hi = draw(st.one_of(st.integers(lo, n), st.just(min(n, lo + 1)), st.just(n)))
    if hi == lo + 1 and draw(st.booleans()):
        return lo, hi, {"scalar": lo if draw(st.booleans()) else lo - n}
    # negative bounds that reach beyond the start of the table stop at row 0, as for arrays: t[-(n+k):] is t[0:]
    s_opts = [lo] + ([lo - n] if lo < n else []) + ([None, -n - 1, -n - 9] if lo == 0 else [])
    e_opts = [hi] + ([hi - n] if 0 < hi < n else []) + ([None] if hi == n else [])
    if hi == 0:
        e_opts = [0] + ([-n, -n - 1, -n - 9] if n > 0 else [])
    return lo, hi, {"slice": [draw(st.sampled_from(s_opts)), draw(st.sampled_from(e_opts))]}


TABLE_COLS = {
    "chroms": ["name", "length"],
    # "chrom_arm": an integer column whose NAME contains "chrom" (it is not the chromosome column)
    "bins": ["chrom", "start", "end", "gc", "mask", "cls", "chrom_arm"],
    "pixels": ["bin1_id", "bin2_id", "count", "x"],
}


@st.composite
def selector_cases(draw):
    c = draw(coolers())
    table = draw(st.sampled_from(["chroms", "bins", "bins", "pixels", "pixels", "pixels-join"]))
    nrows = {"chroms": len(c["bt"]["names"]), "bins": gen.n_bins(c["bt"])}.get(table, len(c["rows"]))
    lo, hi, key = draw(row_key(nrows))
    base = TABLE_COLS.get(table)
    if base is None:
        cols = None
    else:
        mode = draw(st.sampled_from(["none", "one", "list", "list"]))
        if mode == "none":
            cols = None
        elif mode == "one":
            cols = draw(st.sampled_from(base))
        else:
            cols = draw(st.lists(st.sampled_from(base), min_size=1, max_size=len(base), unique=True))
    return {"part": "selector", **c, "table": table, "range": [lo, hi], "key": key, "cols": cols}


CAT_LEVELS = ["low", "mid", "high"]


def _cat_values(n):
    """A categorical extra bin column with missing entries (stored as an HDF5 enum with code -1)."""
    return [None if k % 4 == 1 else CAT_LEVELS[(k * 5) % 3] for k in range(n)]


def _gc_mask(n):
    import pandas as pd

    gc = np.array([((7 * k) % 16) / 16.0 if k % 5 else np.nan for k in range(n)], dtype="float64")
    mask = np.array([k % 3 for k in range(n)], dtype="int8")
    return {"gc": gc, "mask": mask, "cls": pd.Categorical(_cat_values(n), categories=CAT_LEVELS),
            "chrom_arm": np.array([k % 4 for k in range(n)], dtype="int64")}


def make_cooler(ctx, c):
    """Creates the cooler of a case; returns (path, uri)."""
    import h5py

    from ..coolio import create_from_model

    n = gen.n_bins(c["bt"])
    path = ctx.tmp(".cool")
    uri = path if c["group"] == "/" else path + "::" + c["group"]
    call("create", create_from_model, uri, c["bt"], c["rows"], c["symmetric"], cols=("count", "x"),
         bins_extra=_gc_mask(n), h5opts={"compression": None})
    if c["encoding"] == "int":
        # the schema's alternative encoding of bins/chrom (what write_bins falls back to when the
        # enum header does not fit): plain int32 ids + enum_path attribute
        with h5py.File(path, "r+") as f:
            g = f[c["group"]]["bins"]
            codes = g["chrom"][:].astype("int32")
            del g["chrom"]
            d = g.create_dataset("chrom", data=codes, dtype="int32")
            d.attrs["enum_path"] = "/chroms/name"
    return path, uri


def _key(k):
    # half of the slices spell the (only supported) step out: [a:b:1] is [a:b]
    if "scalar" in k:
        return k["scalar"]
    a, b = k["slice"]
    return slice(a, b, 1) if ((a or 0) + (b or 0)) % 2 else slice(a, b)


def _model_table(c, table):
    """dict col -> list of python values, for the whole table."""
    bt, rows = c["bt"], c["rows"]
    if table == "chroms":
        return {"name": list(bt["names"]), "length": [e[-1] for e in bt["edges"]]}
    br = model.bins_rows(bt)
    n = len(br)
    if table == "bins":
        ex = _gc_mask(n)
        # extra columns come back in the (alphabetical) order in which HDF5 lists them
        return {"chrom": [b[0] for b in br], "start": [b[1] for b in br], "end": [b[2] for b in br],
                "chrom_arm": ex["chrom_arm"].tolist(),
                "cls": [float("nan") if v is None else v for v in _cat_values(n)],
                "gc": ex["gc"].tolist(), "mask": ex["mask"].tolist()}
    if table == "pixels":
        return {"bin1_id": [r[0] for r in rows], "bin2_id": [r[1] for r in rows],
                "count": [r[2] for r in rows], "x": [r[3] for r in rows]}
    # joined
    return {"chrom1": [br[r[0]][0] for r in rows], "start1": [br[r[0]][1] for r in rows],
            "end1": [br[r[0]][2] for r in rows], "chrom2": [br[r[1]][0] for r in rows],
            "start2": [br[r[1]][1] for r in rows], "end2": [br[r[1]][2] for r in rows],
            "count": [r[2] for r in rows], "x": [r[3] for r in rows]}


def _col_eq(series, want):
    got = [str(v) if (isinstance(w, str) and isinstance(v, str)) else v for v, w in zip(series.tolist(), want)]
    if len(got) != len(want):
        return False
    for g, w in zip(got, want):
        if isinstance(w, float) and w != w:
            if g == g:
                return False
        elif g != w:
            return False
    return True


def check_selector(case, ctx: Ctx):
    import pandas as pd

    import cooler

    path, uri = make_cooler(ctx, case)
    try:
        clr = cooler.Cooler(uri)
        table = case["table"]
        sel = {"chroms": clr.chroms, "bins": clr.bins, "pixels": clr.pixels,
               "pixels-join": lambda: clr.pixels(join=True)}[table]()
        full = _model_table(case, "pixels-join" if table == "pixels-join" else table)
        lo, hi = case["range"]
        key = _key(case["key"])
        cols = case["cols"]
        nrows = len(next(iter(full.values())))
        check(len(sel) == nrows, f"len({table} selector) = {len(sel)}, table has {nrows} rows")
        s2 = sel if cols is None else sel[cols]
        res = call(f"{table}()[{cols!r}][{key!r}]", lambda: s2[key])
        want_cols = list(full.keys()) if cols is None else ([cols] if isinstance(cols, str) else cols)
        if isinstance(cols, str):
            check(isinstance(res, pd.Series), f"single column selection returned {type(res).__name__}")
            check(res.index.tolist() == list(range(lo, hi)), f"{table}[{cols!r}][{key!r}] index {res.index.tolist()[:6]} want {lo}..{hi - 1}")
            check(_col_eq(res, full[cols][lo:hi]), lambda: f"{table}[{cols!r}][{key!r}] = {res.tolist()[:6]} want {full[cols][lo:hi][:6]}")
        else:
            check(isinstance(res, pd.DataFrame), f"row selection returned {type(res).__name__}")
            check(list(res.columns) == want_cols, f"{table} columns {list(res.columns)} want {want_cols}")
            check(res.index.tolist() == list(range(lo, hi)),
                  lambda: f"{table}()[{key!r}] index {res.index.tolist()[:6]} want {lo}..{hi - 1}")
            for col in want_cols:
                check(_col_eq(res[col], full[col][lo:hi]),
                      lambda: f"{table}()[{cols!r}][{key!r}] column {col} = {res[col].tolist()[:6]} want {full[col][lo:hi][:6]}")
            if cols is not None:
                alt = call(f"{table}()[{key!r}]", lambda: sel[key])[cols]
                check(alt.equals(res) or (len(alt) == 0 and len(res) == 0),
                      f"{table}: column selection changes the rows: sel[cols][r] != sel[r][cols]")
        if table == "pixels-join" and cols is None:
            # the same Cooler object serves differently configured joined selectors one after the other
            raw = call("pixels(join=True, convert_enum=False)[r]", lambda: clr.pixels(join=True, convert_enum=False)[key])
            codes = {nm: t for t, nm in enumerate(case["bt"]["names"])}
            check([str(x) for x in raw["chrom1"]] == [str(codes[x]) for x in full["chrom1"][lo:hi]],
                  lambda: f"pixels(join=True, convert_enum=False) after a converting selector on the same object: chrom1 = {raw['chrom1'].tolist()[:5]}")
            again = call("pixels(join=True)[r] again", lambda: clr.pixels(join=True)[key])
            check([str(x) for x in again["chrom1"]] == full["chrom1"][lo:hi] and [str(x) for x in again["chrom2"]] == full["chrom2"][lo:hi],
                  lambda: f"pixels(join=True) after a non-converting selector on the same object: chrom1 = {again['chrom1'].tolist()[:5]}")
        if table == "pixels-join":
            # the joined pixel form of the matrix selector, for a window whose column range may start before its row range
            # (stored records inside the window, each with the coordinates of its own two bins)
            nb_ = gen.n_bins(case["bt"])
            i0, i1 = sorted(((lo * 7 + 1) % (nb_ + 1), (hi * 5 + 2) % (nb_ + 1)))
            j0, j1 = sorted(((lo * 3) % (nb_ + 1), (hi * 11 + 3) % (nb_ + 1)))
            mp = call(f"matrix(as_pixels=True, join=True)[{i0}:{i1}, {j0}:{j1}]",
                      lambda: clr.matrix(balance=False, as_pixels=True, join=True)[i0:i1, j0:j1])
            br_ = model.bins_rows(case["bt"])
            exp_ = [r for r in case["rows"] if i0 <= r[0] < i1 and j0 <= r[1] < j1]
            got_ = [(str(a), int(b), int(c), str(d), int(e), int(f_), g) for a, b, c, d, e, f_, g in
                    zip(mp["chrom1"], mp["start1"], mp["end1"], mp["chrom2"], mp["start2"], mp["end2"], mp["count"].tolist())] \
                if all(k_ in mp.columns for k_ in ("chrom1", "start1", "end1", "chrom2", "start2", "end2", "count")) else list(mp.columns)
            want_ = [(br_[r[0]][0], br_[r[0]][1], br_[r[0]][2], br_[r[1]][0], br_[r[1]][1], br_[r[1]][2], r[2]) for r in exp_]
            check(got_ == want_, lambda: f"matrix(as_pixels=True, join=True)[{i0}:{i1}, {j0}:{j1}] = {got_[:4]}, the stored records of the window with their own bins are {want_[:4]}")
        if table == "bins" and (cols is None or cols == "chrom" or (isinstance(cols, list) and "chrom" in cols)):
            ch = res if isinstance(cols, str) else res["chrom"]
            check(isinstance(ch.dtype, pd.CategoricalDtype) and list(ch.cat.categories) == list(case["bt"]["names"]),
                  f"bins chrom column is {ch.dtype} (encoding {case['encoding']}), expected categorical chromosome names in order")
    finally:
        ctx.clean(path)
    neg = "slice" in case["key"] and any(isinstance(v, int) and v < 0 for v in case["key"]["slice"]) or \
        ("scalar" in case["key"] and case["key"]["scalar"] < 0)
    nt = (neg and cols is not None) or (case["encoding"] == "int" and table == "bins" and hi > lo)
    ctx.record(case, bool(nt), ["selector", "table=" + table, "enc=" + case["encoding"],
                                "cols=" + ("none" if cols is None else "one" if isinstance(cols, str) else "list"),
                                "range=" + ("scalar" if "scalar" in case["key"] else "empty" if lo == hi else "neg" if neg else "pos")])


# ---------------------------------------------------------------------------
# annotate
# ---------------------------------------------------------------------------

@st.composite
def annotate_cases(draw):
    c = draw(coolers())
    n = gen.n_bins(c["bt"])
    many = draw(st.booleans())
    k = draw(st.integers(0, 3 * n + 3)) if many else draw(st.integers(0, max(0, n - 1)))
    ids = draw(st.lists(st.tuples(st.integers(0, n - 1), st.integers(0, n - 1)), min_size=k, max_size=k))
    if draw(st.booleans()) and ids:
        # keep the referenced ids inside a narrow window so that partial bin tables are meaningful
        a = draw(st.integers(0, n - 1))
        b = draw(st.integers(a, n - 1))
        ids = [(a + (i - a) % (b - a + 1), a + (j - a) % (b - a + 1)) for i, j in ids]
    which = draw(st.sampled_from(["both", "both", "bin1", "bin2"]))
    used = [v for i, j in ids for v in ((i,) if which == "bin1" else (j,) if which == "bin2" else (i, j))]
    lo_need, hi_need = (min(used), max(used)) if used else (0, 0)
    form = draw(st.sampled_from(["frame", "selector", "selector-cols", "partial", "partial"]))
    if form == "partial":
        a = draw(st.integers(0, lo_need)) if used else draw(st.integers(0, n - 1))
        b = draw(st.integers(hi_need + 1, n)) if used else draw(st.integers(a + 1, n))
        part = [a, b]
    else:
        part = None
    bcols = draw(st.lists(st.sampled_from(["chrom", "start", "end", "gc", "mask", "cls", "chrom_arm"]), min_size=1, max_size=6, unique=True)) \
        if form == "selector-cols" else None
    index_kind = draw(st.sampled_from(["range", "shuffled", "offset", "strings"]))
    return {"part": "annotate", **c, "ids": [list(t) for t in ids], "which": which, "form": form, "partial": part,
            "bcols": bcols, "replace": draw(st.booleans()), "index": index_kind,
            "id_dtype": draw(st.sampled_from(["int64", "int64", "int32", "uint32"])),
            "perm": draw(st.integers(0, 2**16))}


def check_annotate(case, ctx: Ctx):
    import pandas as pd

    import cooler

    path, uri = make_cooler(ctx, case)
    try:
        clr = cooler.Cooler(uri)
        ids = case["ids"]
        m = len(ids)
        data = {}
        if case["which"] in ("both", "bin1"):
            data["bin1_id"] = np.array([t[0] for t in ids], dtype=case["id_dtype"])
        if case["which"] in ("both", "bin2"):
            data["bin2_id"] = np.array([t[1] for t in ids], dtype=case["id_dtype"])
        data["count"] = np.arange(m, dtype="int32") * 2 + 1
        if case["index"] == "range":
            index = list(range(m))
        elif case["index"] == "shuffled":
            index = np.random.RandomState(case["perm"]).permutation(m).tolist()
        elif case["index"] == "offset":
            index = list(range(1000, 1000 + m))
        else:
            index = [f"r{t}" for t in range(m)]
        px = pd.DataFrame(data, index=index)
        bsel = clr.bins()
        if case["form"] == "frame":
            bins = bsel[:]
        elif case["form"] == "selector":
            bins = bsel
        elif case["form"] == "selector-cols":
            bins = bsel[case["bcols"]]
        else:
            a, b = case["partial"]
            bins = bsel[a:b]
        px_cols_before = list(px.columns)
        # replace=False is the documented default: left out on even-sized inputs
        rkw = {} if (not case["replace"] and m % 2 == 0) else {"replace": case["replace"]}
        out = call(f"annotate(pixels[{m}], bins as {case['form']}, replace={case['replace']})",
                   cooler.annotate, px, bins, **rkw)
        # the caller's pixel frame is an input: it keeps its columns, so that it can be annotated again
        check(list(px.columns) == px_cols_before, f"annotate(replace={case['replace']}) removed columns {sorted(set(px_cols_before) - set(px.columns))} from the caller's pixel frame")
        again = call("annotate (same pixel frame, second time)", cooler.annotate, px, bins, replace=case["replace"])
        check(list(again.columns) == list(out.columns) and len(again) == len(out), "annotating the same pixel frame a second time gives other columns")
        full = _model_table(case, "bins")
        bcols = case["bcols"] or ["chrom", "start", "end", "chrom_arm", "cls", "gc", "mask"]
        check(len(out) == m, f"annotate returned {len(out)} rows for {m} pixels")
        check(out.index.tolist() == index, "annotate does not keep the pixels' index")
        check(out["count"].tolist() == data["count"].tolist(), "annotate reorders the pixels")
        sides = [s for s in ("1", "2") if f"bin{s}_id" in data]
        for s in sides:
            bid = [t[0] if s == "1" else t[1] for t in ids]
            for col in bcols:
                name = col + s
                check(name in out.columns, f"annotate output lacks column {name}: {list(out.columns)}")
                want = [full[col][b] for b in bid]
                check(_col_eq(out[name], want),
                      lambda: f"annotate column {name}: got {out[name].tolist()[:6]} want {want[:6]} (bins as {case['form']} {case['partial']})")
            if case["replace"]:
                check(f"bin{s}_id" not in out.columns, "replace=True keeps the id column")
            else:
                check(out[f"bin{s}_id"].tolist() == bid, "annotate changed the id column")
    finally:
        ctx.clean(path)
    unsorted = ids != sorted(ids)
    nt = (case["form"] == "partial" and case["partial"][0] > 0 and unsorted) or \
        (case["encoding"] == "int" and m > 0 and "chrom" in bcols)
    n = gen.n_bins(case["bt"])
    ctx.record(case, bool(nt), ["annotate", "form=" + case["form"], "which=" + case["which"],
                                "many" if m >= n else "few", "empty" if m == 0 else "nonempty",
                                "enc=" + case["encoding"], "idx=" + case["index"]])


# ---------------------------------------------------------------------------
# integer encoding through the real route: >= 500 contigs with 120-char names
# ---------------------------------------------------------------------------

@st.composite
def manycontig_cases(draw):
    nch = draw(st.integers(500, 560))
    tag = draw(st.text("ABCDEFGHIJKLMNOPQRSTUVWXYZ", min_size=3, max_size=3))
    lo = draw(st.integers(0, nch))
    hi = draw(st.integers(lo, nch))
    return {"part": "manycontig", "nch": nch, "tag": tag, "range": [lo, hi]}


def check_manycontig(case, ctx: Ctx):
    import h5py
    import pandas as pd

    import cooler

    nch, tag = case["nch"], case["tag"]
    names = [f"{tag}_{k:05d}_" + "x" * 108 for k in range(nch)]
    bins = pd.DataFrame({"chrom": names, "start": 0, "end": [10 + k % 7 for k in range(nch)]})
    ids = [(k, (k * 7) % nch) for k in range(0, nch, 37)]
    ids = sorted((min(a, b), max(a, b)) for a, b in ids)
    px = pd.DataFrame({"bin1_id": [a for a, b in ids], "bin2_id": [b for a, b in ids], "count": 1})
    path = ctx.tmp(".cool")
    try:
        call("create_cooler(many contigs)", cooler.create_cooler, path, bins, px, ordered=True,
             h5opts={"compression": None})
        with h5py.File(path, "r") as f:
            enum = h5py.check_dtype(enum=f["bins/chrom"].dtype)
        clr = cooler.Cooler(path)
        lo, hi = case["range"]
        b = call("bins()[lo:hi]", lambda: clr.bins()[lo:hi])
        check([str(x) for x in b["chrom"]] == names[lo:hi], "bin chromosome labels differ (integer encoding)")
        check(b.index.tolist() == list(range(lo, hi)), "bin index")
        s = call("bins()['chrom'][lo:hi]", lambda: clr.bins()["chrom"][lo:hi])
        check([str(x) for x in s] == names[lo:hi] and s.index.tolist() == list(range(lo, hi)), "chrom Series differs")
        j = call("pixels(join=True)[:]", lambda: clr.pixels(join=True)[:])
        check([str(x) for x in j["chrom1"]] == [names[a] for a, _ in ids]
              and [str(x) for x in j["chrom2"]] == [names[b_] for _, b_ in ids], "joined pixel chromosomes differ")
        a = call("annotate", cooler.annotate, px, clr.bins(), replace=False)
        check([str(x) for x in a["chrom2"]] == [names[b_] for _, b_ in ids], "annotate chrom2 differs")
    finally:
        ctx.clean(path)
    ctx.record(case, enum is None, ["manycontig", "int-encoded" if enum is None else "enum-encoded"])


def _dump_join_cases():
    from . import c16

    return c16.dump_cases().filter(lambda c: c["join"] or c["annotate"])


def check_dump(case, ctx: Ctx):
    """`cooler dump --join / --annotate` (row and column regions in either order, --fill-lower, square storage): every
    printed pixel carries the chromosome, start, end and extra columns of its own two bins (C16's text-dump oracle)."""
    from . import c16

    c16.check_dump(case, ctx)


CHECKS = {"selector": check_selector, "annotate": check_annotate, "manycontig": check_manycontig, "dump": check_dump}


def replay(ctx: Ctx, case):
    CHECKS[case["part"]](case, ctx)


def run(ctx: Ctx):
    q = ctx.tier == "quick"
    parts = []
    parts.append(given_part(ctx, "selector", selector_cases(), check_selector, per_shard(ctx, 2400 if q else 60000)))
    parts.append(given_part(ctx, "annotate", annotate_cases(), check_annotate, per_shard(ctx, 2400 if q else 60000)))
    parts.append(given_part(ctx, "dump-join", _dump_join_cases(), check_dump, per_shard(ctx, 400 if q else 8000), batch=25))
    parts.append(given_part(ctx, "manycontig", manycontig_cases(), check_manycontig, per_shard(ctx, 16 if q else 320), batch=4))
    run_parts(ctx, parts)
