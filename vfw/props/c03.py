"""C03 - a 2D range query equals the same slice of the full matrix."""
from __future__ import annotations

import numpy as np
from hypothesis import strategies as st

from .. import gen, model
from ..core import Ctx, Violation, call, check, digest, must_raise, per_shard, run_given, given_part, machine_part, run_parts

PID = "C03"
LEVEL = "exploration"
SHARDS = {"quick": 8, "thorough": 16}
BUDGET = {"quick": 75, "thorough": 840}
RULE = (
    "Outer cases are Hypothesis-generated matrices (sparsity patterns incl. full/empty rows, diagonal entries) x "
    "storage mode x chunk size; for each, EVERY window 0<=i0<=i1<=n, 0<=j0<=j1<=n is queried (n<=7 quick/<=10 "
    "thorough through the query engines on a dict-backed CSRReader; n<=5/<=7 through cooler.api.matrix on a real "
    "file, dense+sparse+pixel forms); a sampled part drives Cooler.matrix(...)[key] with n<=40, all slice "
    "spellings (negative, open, scalar), store forms (path, URI, open File, open Group), output forms, and - for path/URI stores - a history in which the same Cooler object is queried, the collection is re-created over the same bins with other pixels, and the object is queried again. Oracle: "
    "numpy slice of the dense completion of the model; pixel form: stored records inside the window in storage "
    "order. Each window is one evaluation. Non-trivial = non-empty window containing >=1 stored value whose row "
    "and column ranges overlap (touches/straddles the diagonal) or that is read with chunksize smaller than the "
    "pixels of its rows. Distinct by (digest of matrix+options, window)."
    ' Also: explicit step 1; negative bounds reaching beyond the start of the axis (clipped at 0, as for arrays); matrix() options left to their documented defaults; the lazy engine output (`to_delayed()` chunks of two queries - same window, another matrix and chunk size - computed in one dask.compute call).'
)
ASSUMPTIONS = [
    "window bounds lie in [0, n] (the property's domain); out-of-range slices are not generated",
    "a dict of numpy arrays is the documented 'dict-like' pixel group accepted by CSRReader",
]


def _offsets(rows, n):
    b1 = np.array([r[0] for r in rows], dtype=np.int64)
    return np.searchsorted(b1, np.arange(n + 1), side="left").astype(np.int64)


def _classify(i0, i1, j0, j1, n):
    if i0 == i1 or j0 == j1:
        return "empty"
    if (i0, i1, j0, j1) == (0, n, 0, n):
        return "full"
    if i1 <= j0:
        return "above"
    if j1 <= i0:
        return "below"
    if (i0, i1) == (j0, j1):
        return "anchored-square"
    if i0 == j0:
        return "anchored"
    if j0 <= i0 and i1 <= j1:
        return "i-in-j"
    if i0 <= j0 and j1 <= i1:
        return "j-in-i"
    return "partial-overlap"


@st.composite
def engine_cases(draw, nmax):
    n = draw(st.one_of(st.integers(max(1, nmax - 2), nmax), st.integers(1, nmax)))
    symmetric = draw(st.booleans())
    rows = draw(gen.pixels(n, symmetric, count=st.integers(1, 99)))
    nnz = len(rows)
    chunks = sorted({draw(st.sampled_from([1, 2, 3, 5])), max(1, nnz), nnz + 1, 10**7})
    return {"part": "engine", "n": n, "symmetric": symmetric, "rows": rows, "chunksizes": chunks}


def _expected_pixels(rows, i0, i1, j0, j1):
    return [(t, r) for t, r in enumerate(rows) if i0 <= r[0] < i1 and j0 <= r[1] < j1]


def check_engine(case, ctx: Ctx):
    from cooler.core import CSRReader, DirectRangeQuery2D, FillLowerRangeQuery2D

    n, rows, symmetric = case["n"], case["rows"], case["symmetric"]
    F = model.dense(rows, n, symmetric, 0, dtype=np.int64)
    grp = {
        "bin1_id": np.array([r[0] for r in rows], dtype=np.int64),
        "bin2_id": np.array([r[1] for r in rows], dtype=np.int64),
        "count": np.array([r[2] for r in rows], dtype=np.int32),
    }
    off = _offsets(rows, n)
    reader = CSRReader(grp, off)
    Engine = FillLowerRangeQuery2D if symmetric else DirectRangeQuery2D
    b1, b2 = grp["bin1_id"], grp["bin2_id"]
    row_nnz = np.diff(off)
    n_eval = n_nt = 0
    cls_count: dict[str, int] = {}
    for cs in case["chunksizes"]:
        for i0 in range(n + 1):
            for i1 in range(i0, n + 1):
                rows_px = int(off[i1] - off[i0])
                for j0 in range(n + 1):
                    for j1 in range(j0, n + 1):
                        bbox = (i0, i1, j0, j1)
                        try:
                            d = Engine(reader, "count", bbox, cs).get()
                        except Exception as e:  # noqa: BLE001
                            raise Violation(f"{Engine.__name__}{bbox} chunksize={cs} raised {type(e).__name__}: {e}") from e
                        r_, c_, v_ = d["bin1_id"], d["bin2_id"], d["count"]
                        want = F[i0:i1, j0:j1]
                        if len(r_):
                            if r_.min() < i0 or r_.max() >= i1 or c_.min() < j0 or c_.max() >= j1:
                                raise Violation(f"{Engine.__name__}{bbox} chunksize={cs} emitted a coordinate outside the window")
                            key = r_ * (n + 1) + c_
                            if len(np.unique(key)) != len(key):
                                raise Violation(f"{Engine.__name__}{bbox} chunksize={cs} emitted an element twice")
                        got = np.zeros((i1 - i0, j1 - j0), dtype=np.int64)
                        got[r_ - i0, c_ - j0] = v_
                        if not np.array_equal(got, want):
                            raise Violation(
                                f"{Engine.__name__}{bbox} chunksize={cs} differs from full[{i0}:{i1},{j0}:{j1}]: got {got.tolist()} want {want.tolist()}")
                        # number of emitted elements = stored values in the window (no element lost to a zero overwrite)
                        in_win = ((b1 >= i0) & (b1 < i1) & (b2 >= j0) & (b2 < j1)).sum()
                        if symmetric:
                            in_win += ((b2 >= i0) & (b2 < i1) & (b1 >= j0) & (b1 < j1) & (b1 != b2)).sum()
                        if len(r_) != in_win:
                            raise Violation(f"{Engine.__name__}{bbox} chunksize={cs} emitted {len(r_)} elements, {in_win} stored values lie in the window")
                        n_eval += 1
                        kind = _classify(i0, i1, j0, j1, n)
                        cls_count[kind] = cls_count.get(kind, 0) + 1
                        if in_win and kind != "empty" and ((i0 < j1 and j0 < i1) or cs < rows_px):
                            n_nt += 1
    # ---- the lazy output forms of an engine (dask.delayed chunks, dask frame) describe the same values, also when
    # ---- the chunks of two queries - same window, another matrix / another chunk size - are computed in ONE call
    if n >= 2:
        import dask

        grp2 = dict(grp, count=(grp["count"] + 1000).astype(np.int32))
        reader2 = CSRReader(grp2, off)
        F2 = model.dense([[r[0], r[1], r[2] + 1000] for r in rows], n, symmetric, 0, dtype=np.int64)

        def assemble(parts, bbox):
            a = np.zeros((bbox[1] - bbox[0], bbox[3] - bbox[2]), dtype=np.int64)
            for d_ in parts:
                a[d_["bin1_id"] - bbox[0], d_["bin2_id"] - bbox[2]] += d_["count"]
            return a

        for bbox in ((0, n, 0, n), (n // 3, n, 0, max(1, (2 * n) // 3))):
            e1 = Engine(reader, "count", bbox, case["chunksizes"][0])
            e2 = Engine(reader2, "count", bbox, case["chunksizes"][-1])
            d1 = call("engine.to_delayed()", e1.to_delayed)
            d2 = call("engine.to_delayed() (second matrix)", e2.to_delayed)
            res = call("dask.compute over the chunks of two queries", lambda: dask.compute(*d1, *d2, scheduler="synchronous"))
            a1, a2 = assemble(res[:len(d1)], bbox), assemble(res[len(d1):], bbox)
            check(np.array_equal(a1, F[bbox[0]:bbox[1], bbox[2]:bbox[3]]),
                  lambda: f"{Engine.__name__}{bbox}: delayed chunks computed together with another query's give {a1.tolist()}, want {F[bbox[0]:bbox[1], bbox[2]:bbox[3]].tolist()}")
            check(np.array_equal(a2, F2[bbox[0]:bbox[1], bbox[2]:bbox[3]]),
                  lambda: f"{Engine.__name__}{bbox}: delayed chunks of the second matrix give {a2.tolist()}, want {F2[bbox[0]:bbox[1], bbox[2]:bbox[3]].tolist()}")
            # (to_dask_frame() is not exercised: with the dask installed here it fails on the unchanged tree - the legacy
            # dask DataFrame constructor it uses no longer exists - and no property speaks of it)
            n_eval += 2
    for k, v in cls_count.items():
        ctx.classes["win-" + k] += v
    ctx.record(case, n_nt > 0, ["engine", "engine-sym" if symmetric else "engine-square", f"engine-n={n}"],
               n_eval=n_eval, n_nontrivial=n_nt)
    ctx.exhaustive_subdomains[f"all windows in [0,n]^4 per generated matrix, n={n} (engine)"] = \
        ctx.exhaustive_subdomains.get(f"all windows in [0,n]^4 per generated matrix, n={n} (engine)", 0) + 1


def check_direct_pixels(case, ctx: Ctx):
    """Direct engine with return_index on any data (this is what as_pixels uses)."""
    from cooler.core import CSRReader, DirectRangeQuery2D

    n, rows = case["n"], case["rows"]
    grp = {
        "bin1_id": np.array([r[0] for r in rows], dtype=np.int64),
        "bin2_id": np.array([r[1] for r in rows], dtype=np.int64),
        "count": np.array([r[2] for r in rows], dtype=np.int32),
    }
    reader = CSRReader(grp, _offsets(rows, n))
    n_eval = n_nt = 0
    for cs in case["chunksizes"]:
        for i0 in range(n + 1):
            for i1 in range(i0, n + 1):
                for j0 in range(n + 1):
                    for j1 in range(j0, n + 1):
                        bbox = (i0, i1, j0, j1)
                        try:
                            df = DirectRangeQuery2D(reader, "count", bbox, cs, return_index=True).to_frame()
                        except Exception as e:  # noqa: BLE001
                            raise Violation(f"DirectRangeQuery2D{bbox} chunksize={cs} raised {type(e).__name__}: {e}") from e
                        exp = _expected_pixels(rows, i0, i1, j0, j1)
                        got = list(zip(df.index.tolist(), df["bin1_id"].tolist(), df["bin2_id"].tolist(), df["count"].tolist()))
                        want = [(t, r[0], r[1], r[2]) for t, r in exp]
                        if got != want:
                            raise Violation(f"pixel query {bbox} chunksize={cs}: got {got[:6]} want {want[:6]}")
                        n_eval += 1
                        n_nt += 1 if exp else 0
    ctx.record(case, n_nt > 0, ["direct-pixels"], n_eval=n_eval, n_nontrivial=n_nt)


# ---------------------------------------------------------------------------
# API level, all windows on a real file
# ---------------------------------------------------------------------------

@st.composite
def api_cases(draw, nmax):
    n = draw(st.one_of(st.integers(max(1, nmax - 1), nmax), st.integers(1, nmax)))
    n1 = draw(st.integers(1, n))
    edges = [[10 * k for k in range(n1 + 1)]] + ([[7 * k for k in range(n - n1 + 1)]] if n > n1 else [])
    bt = {"names": ["chr1", "chr2"][: len(edges)], "edges": edges, "kinds": ["fixed"] * len(edges), "b": 10}
    symmetric = draw(st.booleans())
    rows = draw(gen.pixels(n, symmetric, count=st.integers(1, 99)))
    return {"part": "api", "bt": bt, "symmetric": symmetric, "rows": rows,
            "chunksize": draw(st.sampled_from([1, 2, 3, 10**7])),
            "group": draw(st.sampled_from(["/", "/g"]))}


def check_api(case, ctx: Ctx):
    import h5py

    import cooler
    from cooler import api

    from ..coolio import create_from_model

    bt, rows, symmetric = case["bt"], case["rows"], case["symmetric"]
    n = gen.n_bins(bt)
    F = model.dense(rows, n, symmetric, 0, dtype=np.int64)
    bins = model.bins_rows(bt)
    path = ctx.tmp(".cool")
    uri = path + ("" if case["group"] == "/" else "::" + case["group"])
    cs = case["chunksize"]
    n_eval = n_nt = 0
    try:
        call("create", create_from_model, uri, bt, rows, symmetric, h5opts={"compression": None})
        with h5py.File(path, "r") as f:
            h5 = f[case["group"]]
            for i0 in range(n + 1):
                for i1 in range(i0, n + 1):
                    for j0 in range(n + 1):
                        for j1 in range(j0, n + 1):
                            w = (i0, i1, j0, j1)
                            want = F[i0:i1, j0:j1]
                            A = call(f"api.matrix dense {w}", api.matrix, h5, i0, i1, j0, j1, "count", False, False,
                                     False, False, True, False, cs, symmetric)
                            check(A.shape == want.shape and np.array_equal(A, want),
                                  lambda: f"dense window {w} chunksize={cs}: got {A.tolist()} want {want.tolist()}")
                            S = call(f"api.matrix sparse {w}", api.matrix, h5, i0, i1, j0, j1, "count", False, True,
                                     False, False, True, False, cs, symmetric)
                            check(S.shape == want.shape, f"sparse window {w} shape {S.shape}")
                            co = list(zip(S.row.tolist(), S.col.tolist()))
                            check(len(co) == len(set(co)), f"sparse window {w} chunksize={cs} emits an element twice")
                            check(np.array_equal(S.toarray(), want), f"sparse window {w} chunksize={cs} differs")
                            check(S.nnz == int((want != 0).sum()), f"sparse window {w} nnz {S.nnz}")
                            P = call(f"api.matrix pixels {w}", api.matrix, h5, i0, i1, j0, j1, "count", False, False,
                                     True, False, False, False, cs, symmetric)
                            exp = _expected_pixels(rows, i0, i1, j0, j1)
                            got = list(zip(P.index.tolist(), P["bin1_id"].tolist(), P["bin2_id"].tolist(), P["count"].tolist()))
                            check(got == [(t, r[0], r[1], r[2]) for t, r in exp],
                                  lambda: f"pixel window {w} chunksize={cs}: got {got[:5]} want {[(t, *r) for t, r in exp][:5]}")
                            n_eval += 3
                            if want.size and (want != 0).any() and ((i0 < j1 and j0 < i1) or cs < 3):
                                n_nt += 3
            # joined pixel output once per file (full window and one interior window)
            for w in ((0, n, 0, n), (n // 3, n, 0, max(1, n - n // 3))):
                i0, i1, j0, j1 = w
                P = call(f"api.matrix pixels join {w}", api.matrix, h5, i0, i1, j0, j1, "count", False, False,
                         True, True, True, False, cs, symmetric)
                exp = _expected_pixels(rows, i0, i1, j0, j1)
                got = [(str(a), int(b), int(c), str(d), int(e), int(f_), int(g)) for a, b, c, d, e, f_, g in
                       zip(P["chrom1"], P["start1"], P["end1"], P["chrom2"], P["start2"], P["end2"], P["count"])]
                want_j = [(*bins[r[0]], *bins[r[1]], r[2]) for _, r in exp]
                check(got == want_j, lambda: f"joined pixel window {w}: got {got[:4]} want {want_j[:4]}")
                n_eval += 1
    finally:
        ctx.clean(path)
    ctx.record(case, n_nt > 0, ["api", "api-sym" if symmetric else "api-square", f"api-n={n}"],
               n_eval=n_eval, n_nontrivial=n_nt)


# ---------------------------------------------------------------------------
# sampled: Cooler.matrix(...)[key] with spellings and store forms
# ---------------------------------------------------------------------------

@st.composite
def bound_pair(draw, n):
    """(lo, hi, key) with key a spelling (slice as [start, stop] or scalar) of [lo, hi) on an axis of length n."""
    lo = draw(st.integers(0, n))
    hi = draw(st.one_of(st.integers(lo, n), st.just(min(n, lo + 1)), st.just(n)))
    if hi == lo + 1 and draw(st.booleans()):
        k = lo if draw(st.booleans()) else lo - n
        return lo, hi, {"scalar": k}
    # negative bounds that reach beyond the start of the axis stop at 0, as for arrays: x[-(n+k):] is x[0:]
    s_opts = [lo] + ([lo - n] if lo < n else []) + ([None, -n - 1, -n - 7] if lo == 0 else [])
    e_opts = [hi] + ([hi - n] if 0 < hi < n else []) + ([None] if hi == n else [])
    if hi == 0 and lo == 0:
        e_opts = [0] + ([-n, -n - 1, -n - 7] if n > 0 else [])
    # an explicit step of 1 is the same slice ("resolved as for arrays")
    return lo, hi, {"slice": [draw(st.sampled_from(s_opts)), draw(st.sampled_from(e_opts))], "step": draw(st.sampled_from([None, None, 1]))}


@st.composite
def sampled_cases(draw, max_chroms, max_bins):
    bt = draw(gen.bin_tables(max_chroms=max_chroms, max_bins=max_bins))
    n = gen.n_bins(bt)
    symmetric = draw(st.booleans())
    rows = draw(gen.pixels(n, symmetric, count=st.integers(1, 999), extra_cols=[gen.DYADIC]))
    i0, i1, k1 = draw(bound_pair(n))
    shape = draw(st.sampled_from(["2d", "2d", "2d", "rows-only", "tuple1"]))
    if shape == "2d":
        j0, j1, k2 = draw(bound_pair(n))
    else:
        j0, j1, k2 = 0, n, None
    nnz = len(rows)
    return {"part": "sampled", "bt": bt, "symmetric": symmetric, "rows": rows,
            "win": [i0, i1, j0, j1], "key": [k1, k2], "shape": shape,
            "chunksize": draw(st.sampled_from([1, 2, 3, 5, max(1, nnz), nnz + 1, 10**7])),
            "out": draw(st.sampled_from(["dense", "sparse", "pixels", "pixels-join", "pixels-index"])),
            "store": draw(st.sampled_from(["path", "uri", "file", "group"])),
            "field": draw(st.sampled_from([None, "count", "x"])),
            "oob": draw(st.sampled_from([None] * 9 + ["scalar-high", "scalar-low"])),
            # history: the same Cooler object is queried, the matrix at that URI is re-created over the same bins
            # with other pixels, and the object is queried again (a path-based Cooler re-opens the file on every call)
            "recreate_rows": draw(st.one_of(st.none(), st.none(), gen.pixels(n, symmetric, count=st.integers(1, 999), extra_cols=[gen.DYADIC])))}


def _mk_key(k):
    if k is None:
        return None
    if "scalar" in k:
        return k["scalar"]
    return slice(k["slice"][0], k["slice"][1], k.get("step"))


def check_sampled(case, ctx: Ctx):
    import h5py

    import cooler

    from ..coolio import create_from_model

    bt, rows, symmetric = case["bt"], case["rows"], case["symmetric"]
    n = gen.n_bins(bt)
    field = case["field"]
    col = 1 if field == "x" else 0
    F = model.dense(rows, n, symmetric, col, dtype=float)
    bins = model.bins_rows(bt)
    path = ctx.tmp(".cool")
    grp = "/" if case["store"] in ("path", "file") else "/g/h"
    uri = path if grp == "/" else path + "::" + grp
    fh = None
    try:
        call("create", create_from_model, uri, bt, rows, symmetric, cols=("count", "x"),
             h5opts={"compression": None})
        if case["store"] == "path":
            store = path
        elif case["store"] == "uri":
            store = path + "::" + grp.lstrip("/")   # spelled without the leading slash
        else:
            fh = h5py.File(path, "r")
            store = fh if case["store"] == "file" else fh[grp]
        clr = call("Cooler(store)", cooler.Cooler, store)
        if case.get("recreate_rows") is not None and case["store"] in ("path", "uri") and not case["oob"]:
            # first use of the object on the old matrix ...
            before = call("matrix()[:] before re-creation", lambda: clr.matrix(balance=False, field=field, chunksize=case["chunksize"])[:])
            check(np.array_equal(before, F), "full matrix before re-creation differs")
            _ = clr.matrix(balance=False, sparse=True)[0:n, 0:n]
            # ... then the collection is re-created at the same URI (append mode keeps the rest of the file)
            rows = case["recreate_rows"]
            call("re-create at the same URI", create_from_model, uri, bt, rows, symmetric, cols=("count", "x"),
                 h5opts={"compression": None}, mode="a")
            F = model.dense(rows, n, symmetric, col, dtype=float)
        out = case["out"]
        mkw = dict(field=field, balance=False, sparse=(out == "sparse"), as_pixels=out.startswith("pixels"),
                   join=(out == "pixels-join"), ignore_index=(out != "pixels-index"), chunksize=case["chunksize"])
        if len(rows) % 2 == 0:
            # options equal to their documented defaults are left out (field None, dense, not as pixels, no join,
            # ignore_index True; the largest chunk size stands for "not given")
            for name, default in (("field", None), ("sparse", False), ("as_pixels", False), ("join", False), ("ignore_index", True),
                                  ("chunksize", 10**7)):
                if mkw[name] == default and type(mkw[name]) is type(default):
                    del mkw[name]
        sel = clr.matrix(**mkw)
        if case["oob"]:
            k = n + 0 if case["oob"] == "scalar-high" else -n - 1
            must_raise(f"matrix()[{k}] on {n} bins (out of range scalar)", lambda: sel[k])
            ctx.record(case, True, ["sampled", "oob-" + case["oob"]])
            return
        k1, k2 = _mk_key(case["key"][0]), _mk_key(case["key"][1])
        if case["shape"] == "2d":
            key = (k1, k2)
        elif case["shape"] == "tuple1":
            key = (k1,)
        else:
            key = k1
        res = call(f"matrix()[{key}]", lambda: sel[key])
        # expectation from numpy semantics of the spelled key
        ax = np.arange(n)
        ri = ax[k1] if isinstance(k1, slice) else ax[[k1]]
        ci = ax if k2 is None else (ax[k2] if isinstance(k2, slice) else ax[[k2]])
        i0, i1, j0, j1 = case["win"]
        assert (len(ri), len(ci)) == (i1 - i0, j1 - j0) and (len(ri) == 0 or ri[0] == i0) and (len(ci) == 0 or ci[0] == j0)
        want = F[np.ix_(ri, ci)]
        if out == "dense":
            check(res.shape == want.shape and np.array_equal(res, want),
                  lambda: f"matrix()[{key}] dense differs: got {np.asarray(res).tolist()} want {want.tolist()}")
        elif out == "sparse":
            co = list(zip(res.row.tolist(), res.col.tolist()))
            check(len(co) == len(set(co)), f"matrix(sparse)[{key}] emits an element twice")
            check(res.shape == want.shape and np.array_equal(res.toarray(), want), f"matrix(sparse)[{key}] differs")
        else:
            exp = _expected_pixels(rows, i0, i1, j0, j1)
            f_ = field or "count"
            vals = res[f_].tolist()
            check(vals == [r[2 + col] for _, r in exp], lambda: f"pixel values for {key}: {vals[:6]}")
            if out == "pixels-join":
                got = [(str(a), int(b), int(c), str(d), int(e), int(g)) for a, b, c, d, e, g in
                       zip(res["chrom1"], res["start1"], res["end1"], res["chrom2"], res["start2"], res["end2"])]
                check(got == [(*bins[r[0]], *bins[r[1]]) for _, r in exp], f"joined pixel coordinates for {key}")
                check("bin1_id" not in res.columns, "join=True must replace the bin id columns")
            else:
                check("bin1_id" in res.columns and "bin2_id" in res.columns and "chrom1" not in res.columns,
                      lambda: f"pixel output for {key} without join carries columns {list(res.columns)}")
                got = list(zip(res["bin1_id"].tolist(), res["bin2_id"].tolist()))
                check(got == [(r[0], r[1]) for _, r in exp], lambda: f"pixel ids for {key}: {got[:6]}")
            if out == "pixels-index":
                check(res.index.tolist() == [t for t, _ in exp], f"pixel index for {key}: {res.index.tolist()[:6]}")
    finally:
        if fh is not None:
            fh.close()
        ctx.clean(path)
    i0, i1, j0, j1 = case["win"]
    has = bool(want.size) and bool((want != 0).any())
    nt = has and ((i0 < j1 and j0 < i1) or case["chunksize"] <= 5)
    spell = "+".join(sorted({("scalar" if "scalar" in k else "neg" if any(isinstance(v, int) and v < 0 for v in k["slice"])
                              else "open" if None in k["slice"] else "plain") for k in case["key"] if k}))
    ctx.record(case, nt, ["sampled", "out=" + case["out"], "store=" + case["store"], "spell=" + spell,
                          "recreated" if case.get("recreate_rows") is not None and case["store"] in ("path", "uri") else "single-shot",
                          "win-" + _classify(i0, i1, j0, j1, n)])


CHECKS = {"engine": check_engine, "direct": check_direct_pixels, "api": check_api, "sampled": check_sampled}


def replay(ctx: Ctx, case):
    CHECKS[case["part"]](case, ctx)


def run(ctx: Ctx):
    q = ctx.tier == "quick"
    parts = []
    nmax_e, nmax_a = (7, 5) if q else (10, 7)
    parts.append(given_part(ctx, "engine", engine_cases(nmax_e), check_engine, per_shard(ctx, 160 if q else 1600), batch=20))
    parts.append(given_part(ctx, "direct", engine_cases(min(nmax_e, 7)).map(lambda c: dict(c, part="direct")),
                     check_direct_pixels, per_shard(ctx, 40 if q else 400), batch=10))
    parts.append(given_part(ctx, "api", api_cases(nmax_a), check_api, per_shard(ctx, 48 if q else 480), batch=6))
    parts.append(given_part(ctx, "sampled", sampled_cases(4, 10), check_sampled, per_shard(ctx, 3200 if q else 120000), batch=100))
    run_parts(ctx, parts)
