"""C12 - balanced reads equal raw values times the two bin weights."""
from __future__ import annotations

import numpy as np
from hypothesis import strategies as st

from .. import gen, model
from ..core import Ctx, Violation, call, check, must_raise, per_shard, run_given, given_part, run_parts

PID = "C12"
LEVEL = "exploration"
SHARDS = {"quick": 8, "thorough": 16}
BUDGET = {"quick": 70, "thorough": 780}
RULE = (
    "Case = generated cooler with 1-3 float bin columns among weight/KR/VC/VC_SQRT/w2 holding positive values and "
    "NaNs x window (square on the diagonal, off-diagonal, rectangular with different row/column ranges of equal "
    "and unequal length, empty, full) x output form (dense, sparse, pixels, pixels joined) x balance (True, a "
    "column name, a missing name) x divisive_weights (None, True, False) x storage mode x read chunk size x addressing (index slices, or - when each range lies inside one chromosome - one or two genomic regions through fetch). Oracle: "
    "dense(M)[win] * outer(w_rows, w_cols) with reciprocals when divisive (explicit, or by default for "
    "KR/VC/VC_SQRT), NaN wherever either weight is NaN; rtol 1e-12. Non-trivial = row range != column range, >=1 "
    "stored pixel in the window and >=1 NaN weight in range. Distinct by sha1 of the canonical case."
    ' Pixel output is also requested with ignore_index=False (rows labelled with their own row numbers; values must still belong to their rows).'
    ' Part dump-balanced: `cooler dump --balanced` combined with every other dump option (regions, --join, --one-based-ids, --fill-lower, chunk sizes), judged by the text-dump oracle of C16.'
    ' Weight datasets may carry attributes (divisive_weights=True/False, ignore_diags): they do not change how a column is read.'
    ' Weight columns may be written after creation through cooler.create.append (whole columns, or chunked=True with generated cuts).'
)
ASSUMPTIONS = ["weights are positive finite floats or NaN (what balancing writes)"]

WNAMES = ["weight", "KR", "VC", "VC_SQRT", "w2"]
DIVISIVE_DEFAULT = {"KR", "VC", "VC_SQRT"}


@st.composite
def cases(draw, max_chroms=3, max_bins=5):
    bt = draw(gen.bin_tables(max_chroms=max_chroms, max_bins=max_bins))
    n = gen.n_bins(bt)
    symmetric = draw(st.booleans())
    rows = draw(gen.pixels(n, symmetric, count=st.integers(1, 999)))
    names = draw(st.lists(st.sampled_from(WNAMES), min_size=1, max_size=3, unique=True))
    w = st.one_of(st.floats(0.01, 50.0, allow_nan=False), st.floats(1e-6, 1e6, allow_nan=False), st.just(None), st.just(1.0))
    weights = {nm: draw(st.lists(w, min_size=n, max_size=n)) for nm in names}
    shape = draw(st.sampled_from(["same", "same", "shifted", "free", "free", "full", "empty"]))
    i0 = draw(st.integers(0, n))
    i1 = draw(st.integers(i0, n))
    if shape == "same":
        j0, j1 = i0, i1
    elif shape == "shifted":
        ln = i1 - i0
        j0 = draw(st.integers(0, n - ln))
        j1 = j0 + ln
    elif shape == "full":
        i0, i1, j0, j1 = 0, n, 0, n
    elif shape == "empty":
        j0 = draw(st.integers(0, n))
        j1 = j0
    else:
        j0 = draw(st.integers(0, n))
        j1 = draw(st.integers(j0, n))
    via = draw(st.sampled_from(["fetch", "slice"]))
    if via == "fetch" and shape not in ("full", "empty"):
        # genomic regions address bins of ONE chromosome: clip each range to the chromosome of its first bin
        chrom_of = [r[0] for r in model.bins_rows(bt)]

        def clip(a, b):
            if a >= n:
                a = n - 1
            b = max(b, a + 1)          # a region always covers at least one bin
            e = a
            while e < n and chrom_of[e] == chrom_of[a]:
                e += 1
            return a, min(b, e)

        i0, i1 = clip(i0, i1)
        j0, j1 = clip(j0, j1)
    bal = draw(st.sampled_from(["True", "name", "name", "missing"]))
    if bal == "True":
        balance = True if "weight" in names else draw(st.sampled_from(names))
    elif bal == "name":
        balance = draw(st.sampled_from(names))
    else:
        balance = draw(st.sampled_from([x for x in WNAMES + ["nope"] if x not in names] + ([True] if "weight" not in names else [])))
    return {"part": "balanced", "bt": bt, "symmetric": symmetric, "rows": rows, "weights": weights,
            "win": [i0, i1, j0, j1], "out": draw(st.sampled_from(["dense", "sparse", "pixels", "pixels-join"])),
            "balance": balance, "divisive": draw(st.sampled_from([None, None, True, False])),
            # pixel output labelled with the pixels' own row numbers instead of 0..k-1 (only drawn for the pixel forms)
            "keep_index": draw(st.booleans()),
            "chunksize": draw(st.sampled_from([1, 3, 10**7])), "via": via,
            # history: the Cooler object exists (and has been queried) before the weight columns are written / replaced
            # (True: raw HDF5 write as balance_cooler(store=True) does; "append*": through cooler.create.append, whole
            # columns or chunked=True with the column cut at generated points)
            "late_weights": draw(st.sampled_from([False, False, True, "append", "append-chunked", "append-chunked"])),
            "append_cuts": sorted(draw(st.lists(st.integers(0, n), min_size=1, max_size=3)))}


def check_balanced(case, ctx: Ctx):
    import cooler

    from ..coolio import create_from_model

    bt, rows, symmetric = case["bt"], case["rows"], case["symmetric"]
    n = gen.n_bins(bt)
    W = {k: np.array([np.nan if v is None else v for v in vals], dtype=float) for k, vals in case["weights"].items()}
    path = ctx.tmp(".cool")
    i0, i1, j0, j1 = case["win"]
    balance = case["balance"]
    name = "weight" if balance is True else balance
    try:
        if case.get("late_weights"):
            import h5py

            # stale columns first, an early query through the object, then the real columns are written the way
            # balance_cooler(store=True) does it
            stale = {k: np.ones(n) * 7.0 for k in W}
            call("create", create_from_model, path, bt, rows, symmetric, bins_extra=stale, h5opts={"compression": None})
            clr = cooler.Cooler(path)
            _ = clr.matrix(balance=next(iter(W)), sparse=True)[:]
            _ = clr.matrix(balance=next(iter(W)))[0:n, 0:n]
            if case["late_weights"] is True:
                with h5py.File(path, "r+") as f:
                    for k, v in W.items():
                        del f["bins"][k]
                        f["bins"].create_dataset(k, data=v, compression="gzip", compression_opts=6)
            elif case["late_weights"] == "append":
                from cooler.create import append

                call("cooler.create.append(bins, columns, force=True)", append, path, "bins", dict(W), force=True)
            else:
                from cooler.create import append

                cuts = [0, *case.get("append_cuts", [n // 2]), n]
                chunks = {k: [v[a:b] for a, b in zip(cuts[:-1], cuts[1:]) if b > a] for k, v in W.items()}
                call(f"cooler.create.append(bins, columns in chunks cut at {cuts}, chunked=True, force=True)", append, path, "bins",
                     chunks, chunked=True, force=True)
        else:
            call("create", create_from_model, path, bt, rows, symmetric, bins_extra=W, h5opts={"compression": None})
            clr = cooler.Cooler(path)
        if case.get("append_cuts") and len(case["append_cuts"]) % 2:
            # weight datasets may carry attributes (balancing stores its parameters there, other tools their own): the
            # reading convention is decided by the caller's argument and the column NAME only
            import h5py

            with h5py.File(path, "r+") as f:
                for t_, k_ in enumerate(sorted(W)):
                    f["bins"][k_].attrs["divisive_weights"] = bool((t_ + len(rows)) % 2 == 0)
                    f["bins"][k_].attrs["ignore_diags"] = 2
        out = case["out"]
        keep_index = bool(case.get("keep_index")) and out.startswith("pixels")
        sel = clr.matrix(balance=balance, sparse=(out == "sparse"), as_pixels=out.startswith("pixels"),
                         join=(out == "pixels-join"), divisive_weights=case["divisive"], chunksize=case["chunksize"],
                         **({"ignore_index": False} if keep_index else {}))
        if name not in W:
            must_raise(f"balanced read with missing weight column {name!r} (out={out})", lambda: sel[i0:i1, j0:j1])
            ctx.record(case, True, ["missing-column", "out=" + out])
            return
        # the same window addressed by genomic regions, when each range lies inside one chromosome
        br_ = model.bins_rows(bt)
        regions = None
        if case.get("via") == "fetch" and i1 > i0 and j1 > j0 and br_[i0][0] == br_[i1 - 1][0] and br_[j0][0] == br_[j1 - 1][0]:
            regions = ((br_[i0][0], br_[i0][1], br_[i1 - 1][2]), (br_[j0][0], br_[j0][1], br_[j1 - 1][2]))
        if regions is not None:
            if regions[0] == regions[1] and case["chunksize"] == 3:
                res = call(f"matrix(balance={balance!r}, {out}).fetch({regions[0]})", lambda: sel.fetch(regions[0]))
            else:
                res = call(f"matrix(balance={balance!r}, {out}).fetch{regions}", lambda: sel.fetch(*regions))
        else:
            res = call(f"matrix(balance={balance!r}, {out})[{i0}:{i1},{j0}:{j1}]", lambda: sel[i0:i1, j0:j1])
        divisive = case["divisive"] if case["divisive"] is not None else (name in DIVISIVE_DEFAULT)
        w = W[name]
        wr, wc = w[i0:i1], w[j0:j1]
        if divisive:
            wr, wc = 1.0 / wr, 1.0 / wc
        F = model.dense(rows, n, symmetric, 0, dtype=float)
        raw = F[i0:i1, j0:j1]
        want = raw * np.outer(wr, wc)
        if out == "dense":
            check(res.shape == want.shape, f"shape {res.shape}")
            check(np.array_equal(np.isnan(res), np.isnan(want)),
                  lambda: f"NaN positions differ: got {np.argwhere(np.isnan(res)).tolist()[:6]} want {np.argwhere(np.isnan(want)).tolist()[:6]}")
            check(np.allclose(res, want, rtol=1e-12, atol=0, equal_nan=True),
                  lambda: f"balanced dense window differs: got {res.tolist()} want {want.tolist()}")
        elif out == "sparse":
            check(res.shape == want.shape, f"shape {res.shape}")
            co = list(zip(res.row.tolist(), res.col.tolist()))
            check(len(co) == len(set(co)), "sparse balanced output emits an element twice")
            check(sorted(co) == sorted(map(tuple, np.argwhere(raw != 0).tolist())), "sparse coordinates are not the stored values of the window")
            exp = np.array([want[r, c] for r, c in co], dtype=float)
            check(np.allclose(res.data, exp, rtol=1e-12, atol=0, equal_nan=True),
                  lambda: f"sparse balanced values differ: got {res.data.tolist()[:6]} want {exp.tolist()[:6]}")
        else:
            exp = [(r[0], r[1], r[2]) for r in rows if i0 <= r[0] < i1 and j0 <= r[1] < j1]
            if keep_index:
                # the window's stored records in storage order, labelled with their row numbers in the pixel table
                ids = [t for t, r in enumerate(rows) if i0 <= r[0] < i1 and j0 <= r[1] < j1]
                check(res.index.tolist() == ids, lambda: f"ignore_index=False: row labels {res.index.tolist()[:8]}, the stored row numbers are {ids[:8]}")
            check(len(res) == len(exp) and res["count"].tolist() == [e[2] for e in exp], "pixel rows differ")
            wfull = 1.0 / w if divisive else w
            expb = np.array([e[2] * wfull[e[0]] * wfull[e[1]] for e in exp], dtype=float)
            check("balanced" in res.columns, "no 'balanced' column")
            got = res["balanced"].to_numpy(dtype=float)
            check(np.allclose(got, expb, rtol=1e-12, atol=0, equal_nan=True),
                  lambda: f"balanced pixel values differ: got {got.tolist()[:6]} want {expb.tolist()[:6]}")
            if out == "pixels-join":
                br = model.bins_rows(bt)
                gotc = [(str(a), int(b), str(c), int(d)) for a, b, c, d in zip(res["chrom1"], res["start1"], res["chrom2"], res["start2"])]
                check(gotc == [(br[e[0]][0], br[e[0]][1], br[e[1]][0], br[e[1]][1]) for e in exp], "joined coordinates differ")
    finally:
        ctx.clean(path)
    has = bool((raw != 0).any()) if raw.size else False
    nanw = bool(np.isnan(w[i0:i1]).any() or np.isnan(w[j0:j1]).any())
    nt = (i0, i1) != (j0, j1) and has and nanw
    ctx.record(case, nt, ["balanced", "out=" + out, "name=" + name, "divisive=" + str(case["divisive"]),
                          "same-range" if (i0, i1) == (j0, j1) else "diff-range-same-len" if i1 - i0 == j1 - j0 else "diff-len",
                          "sym" if symmetric else "square", "row-labels=" + ("own" if keep_index else "fresh"), "via=" + ("fetch" if regions is not None else "slice"), "weights=" + str(case.get("late_weights") or "at-creation")])


def _dump_balanced_cases():
    from . import c16

    return c16.dump_cases().filter(lambda c: c["balanced"])


def check_dump(case, ctx: Ctx):
    """`cooler dump --balanced` (with every other dump option drawn freely): the printed balanced value of each pixel is
    count x weight[bin1] x weight[bin2] of ITS OWN bins (C16's oracle for the text dump)."""
    from . import c16

    c16.check_dump(case, ctx)


CHECKS = {"balanced": check_balanced, "dump": check_dump}


def replay(ctx: Ctx, case):
    CHECKS[case["part"]](case, ctx)


def run(ctx: Ctx):
    q = ctx.tier == "quick"
    parts = [given_part(ctx, "balanced", cases(), check_balanced, per_shard(ctx, 4400 if q else 120000)),
             given_part(ctx, "dump-balanced", _dump_balanced_cases(), check_dump, per_shard(ctx, 400 if q else 8000), batch=25)]
    if not q:
        parts.append(given_part(ctx, "balanced-wide", cases(5, 8), check_balanced, per_shard(ctx, 30000)))
    run_parts(ctx, parts)
