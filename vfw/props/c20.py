"""C20 - generated bin tables tile the genome; a reported bin size is always true."""
from __future__ import annotations

import io
import itertools
import os

from hypothesis import strategies as st

from .. import gen, model
from ..cliutil import run_cli
from ..core import Ctx, Violation, call, check, per_shard, run_enumerated, enumerated_part, run_given, given_part, machine_part, run_parts

PID = "C20"
LEVEL = "exploration"
SHARDS = {"quick": 8, "thorough": 16}
BUDGET = {"quick": 60, "thorough": 600}
RULE = (
    "Cases: (a) chromsizes x width for binnify (Hypothesis; plus ALL single-chromosome "
    "pairs L<=40,w<=45), (b) bin tables of every layout kind for get_binsize/get_chromsizes "
    "(Hypothesis; plus ALL valid tables with <=2 chromosomes and bounded total length), "
    "(c) makebins / parse_bins text routes, (d) Cooler.binsize / info after creation. "
    "Oracle: integer arithmetic tiling [k*w, min((k+1)w, L)). Non-trivial = some chromosome "
    "with L not a multiple of w and >=2 bins (binnify routes) or a near-uniform/mixed/"
    "longer-last-bin table (inference routes). Distinct by sha1 of the canonical case."
    " Also: `cooler info -f <field>` against the stored table when user metadata has keys named like standard fields; chromsizes names containing '#'; unit-suffixed bin sizes in parse_bins (refused, or exactly the integer denoted, on chromosomes long enough to show one bp); get_chromsizes / get_binsize on tables of PART of the genome that keep the full categorical dtype; `cooler ls -l` bin sizes for collections stored under /, /g and /resolutions/<n> groups whose name is not their bin size."
)
ASSUMPTIONS = [
    "bin tables given to the inference are valid: per chromosome contiguous from 0, strictly increasing",
    "coordinates < 2^31 (schema stores int32)",
]


# ---------------------------------------------------------------------------
# (a) binnify
# ---------------------------------------------------------------------------

@st.composite
def binnify_cases(draw):
    nch = draw(st.integers(1, 6))
    names = draw(gen.chrom_names(nch, allow_space=True))
    big = draw(st.booleans())
    if big:
        w = draw(st.sampled_from([1000, 5000, 10**6, 2 * 10**6, 12345, 2**20]))
        lengths = [draw(st.one_of(
            st.integers(1, 40).map(lambda k: k * w),
            st.integers(1, min(2**31 - 1, 60 * w)),
            st.integers(1, w))) for _ in range(nch)]
    else:
        w = draw(st.integers(1, 45))
        lengths = [draw(st.one_of(st.integers(1, 120), st.integers(1, 5).map(lambda k: k * w),
                                  st.integers(1, w))) for _ in range(nch)]
    return {"part": "binnify", "names": names, "lengths": lengths, "w": w}


def _frame_rows(df):
    return [(str(c), int(s), int(e)) for c, s, e in zip(df["chrom"], df["start"], df["end"])]


def check_binnify(case, ctx: Ctx):
    import pandas as pd

    import cooler

    names, lengths, w = case["names"], case["lengths"], case["w"]
    cs = pd.Series(lengths, index=names, dtype="int64")
    df = call("binnify", cooler.binnify, cs, w)
    want = model.bins_rows(model.binnify(names, lengths, w))
    got = _frame_rows(df)
    check(got == want, lambda: f"binnify({dict(zip(names, lengths))}, {w}) rows differ: got {got[:8]}.. want {want[:8]}..")
    check(list(df.columns[:3]) == ["chrom", "start", "end"], "binnify columns")
    check(list(df.index) == list(range(len(want))), "binnify index is not 0..n-1")
    if isinstance(df["chrom"].dtype, pd.CategoricalDtype):
        check(list(df["chrom"].cat.categories) == list(names), "categorical order differs from given order")
    # the table produced must itself be recognised with its true width, and its sizes recovered
    bt = model.binnify(names, lengths, w)
    b = call("get_binsize", cooler.util.get_binsize, df)
    if b is not None:
        check(model.tiles(bt, int(b)), f"get_binsize(binnify(..,{w})) = {b} does not tile")
    if any(len(e) >= 3 for e in bt["edges"]):
        check(b is not None and int(b) == w, f"get_binsize(binnify(..,{w})) = {b}")
    sizes = call("get_chromsizes", cooler.util.get_chromsizes, df)
    check(list(sizes.index) == list(names) and [int(v) for v in sizes.values] == list(lengths),
          f"get_chromsizes(binnify) = {dict(sizes)}")
    nt = any(L % w != 0 and L > w for L in lengths)
    ctx.record(case, nt, ["binnify", "big" if w >= 1000 else "small",
                          "short-last" if nt else "no-short-last",
                          "L<w" if any(L < w for L in lengths) else "no-L<w",
                          "L==kw" if any(L % w == 0 for L in lengths) else "no-L==kw"])


def enum_binnify(ctx: Ctx):
    """ALL (L <= 40, w <= 45) single-chromosome pairs, sharded."""
    k = 0
    for L in range(1, 41):
        for w in range(1, 46):
            k += 1
            if k % ctx.nshards != ctx.shard:
                continue
            yield {"part": "binnify", "names": ["c"], "lengths": [L], "w": w}


# ---------------------------------------------------------------------------
# (b) inference on arbitrary valid tables
# ---------------------------------------------------------------------------

@st.composite
def infer_cases(draw):
    bt = draw(gen.bin_tables(max_chroms=5, max_bins=6, max_width=9, allow_space=True))
    return {"part": "infer", "bt": bt, "categorical": draw(st.booleans()),
            "subset_seed": draw(st.one_of(st.none(), st.integers(1, 30)))}


def check_infer(case, ctx: Ctx):
    import cooler

    bt = case["bt"]
    df = gen.bins_df(bt, categorical=case.get("categorical", False))
    b = call("get_binsize", cooler.util.get_binsize, df)
    tb = model.true_binsize(bt)
    if b is not None:
        check(model.tiles(bt, int(b)),
              lambda: f"get_binsize reports {b} for a table that is not a {b}-tiling: {bt['edges']}")
    if tb is not None:
        check(b is not None and int(b) == tb,
              lambda: f"uniform table of width {tb} reported as {b}: {bt['edges']}")
    sizes = call("get_chromsizes", cooler.util.get_chromsizes, df)
    want = [e[-1] for e in bt["edges"]]
    check([str(x) for x in sizes.index] == list(bt["names"]) and [int(v) for v in sizes.values] == want,
          lambda: f"get_chromsizes = {dict(sizes)} want {dict(zip(bt['names'], want))}")
    if "subset_seed" in case and tb is not None and tb >= 2 and any(len(e) >= 3 for e in bt["edges"]):
        # a table DERIVED from a binnify() frame by ordinary pandas operations (slices of the frame, concatenated, one inner
        # bin cut in two): it is no longer a tiling of width tb and must not be reported as one
        import pandas as pd

        fr = cooler.util.binnify(gen.chromsizes_series(bt), tb)
        ci = next(t for t, e in enumerate(bt["edges"]) if len(e) >= 3)
        k = sum(len(e) - 1 for e in bt["edges"][:ci])          # first bin of that chromosome: an inner bin, full width
        two = fr.iloc[[k, k]].copy()
        two.iloc[0, two.columns.get_loc("end")] = int(fr["start"].iloc[k]) + 1
        two.iloc[1, two.columns.get_loc("start")] = int(fr["start"].iloc[k]) + 1
        derived = pd.concat([fr.iloc[:k], two, fr.iloc[k + 1:]]).reset_index(drop=True)
        db = call("get_binsize(table derived from a binnify() frame)", cooler.util.get_binsize, derived)
        ed = [list(e) for e in bt["edges"]]
        ed[ci] = [ed[ci][0], ed[ci][0] + 1, *ed[ci][1:]]
        check(db is None or model.tiles({"names": bt["names"], "edges": ed}, int(db)),
              lambda: f"get_binsize reports {db} for a table derived from binnify(..., {tb}) whose first bin of {bt['names'][ci]!r} was cut in two: {ed}")
    if case.get("subset_seed") is not None and len(bt["names"]) >= 2:
        # a table of PART of the genome that keeps the full categorical dtype (what bins[bins.chrom.isin(...)] or
        # Cooler.bins().fetch(chrom) hand over): lengths of the chromosomes present, in order, nothing else
        nn = len(bt["names"])
        keep = [t for t in range(nn) if (case["subset_seed"] >> t) & 1] or [nn - 1]
        kept = [bt["names"][t] for t in keep]
        full = gen.bins_df(bt, categorical=True)
        sub = full[full["chrom"].isin(kept)]
        sz = call("get_chromsizes(partial table, full categorical dtype)", cooler.util.get_chromsizes, sub)
        want_s = [bt["edges"][t][-1] for t in keep]
        ok = [str(x) for x in sz.index] == kept
        try:
            ok = ok and [int(v) for v in sz.values] == want_s
        except (TypeError, ValueError):
            ok = False
        check(ok, lambda: f"get_chromsizes of a table holding only {kept} (categories {list(bt['names'])}) = {dict(sz)}, last bin ends are {dict(zip(kept, want_s))}")
        sb = call("get_binsize(partial table)", cooler.util.get_binsize, sub)
        sub_bt = {"names": kept, "edges": [bt["edges"][t] for t in keep]}
        if sb is not None:
            check(model.tiles(sub_bt, int(sb)), lambda: f"get_binsize reports {sb} for a partial table that is not a {sb}-tiling: {sub_bt['edges']}")
    kinds = set(bt.get("kinds", []))
    longer_last = any(len(e) >= 3 and (e[-1] - e[-2]) > (e[1] - e[0]) for e in bt["edges"])
    nt = bool(kinds - {"fixed"}) or longer_last
    ctx.record(case, nt, ["infer", "reported-fixed" if b is not None else "reported-variable",
                          "truly-fixed" if tb is not None else "not-fixed",
                          "longer-last" if longer_last else "no-longer-last",
                          "partial-categorical" if case.get("subset_seed") is not None and len(bt["names"]) >= 2 else "whole-table"])


def _compositions(L):
    """All edge lists [0, ..., L] (compositions of L)."""
    for mask in range(1 << (L - 1)):
        e = [0]
        for p in range(1, L):
            if mask >> (p - 1) & 1:
                e.append(p)
        e.append(L)
        yield e


def enum_infer(ctx: Ctx):
    maxtot = 9 if ctx.tier == "quick" else 12
    k = 0
    for total in range(1, maxtot + 1):
        # one chromosome
        for e in _compositions(total):
            k += 1
            if k % ctx.nshards == ctx.shard:
                yield {"part": "infer", "bt": {"names": ["a"], "edges": [e]}}
        # two chromosomes
        for L1 in range(1, total):
            for e1 in _compositions(L1):
                for e2 in _compositions(total - L1):
                    k += 1
                    if k % ctx.nshards == ctx.shard:
                        yield {"part": "infer", "bt": {"names": ["a", "b"], "edges": [e1, e2]}}
    ctx.exhaustive_subdomains[f"all valid bin tables, <=2 chromosomes, total length<={maxtot}"] = 0


# ---------------------------------------------------------------------------
# (c) command line routes
# ---------------------------------------------------------------------------

_cli_names = st.lists(st.one_of(st.sampled_from(gen.NAME_POOL), gen.random_name(max_size=10),
                                 st.sampled_from(["HG002#1#chr1", "HG002#2#chr1", "s#c", "chr#"])),
                      min_size=1, max_size=5, unique=True)


@st.composite
def cli_cases(draw):
    names = draw(_cli_names)
    w = draw(st.integers(1, 30))
    lengths = [draw(st.one_of(st.integers(1, 100), st.integers(1, 4).map(lambda k: k * w))) for _ in names]
    return {"part": "cli", "names": names, "lengths": lengths, "w": w,
            "header": draw(st.booleans()), "rel_ids": draw(st.sampled_from([None, "0", "1"])),
            "to_file": draw(st.booleans())}


def check_cli(case, ctx: Ctx):
    import pandas as pd

    from cooler.cli._util import parse_bins

    names, lengths, w = case["names"], case["lengths"], case["w"]
    d = ctx.tmpdir()
    try:
        cs_path = os.path.join(d, "x.chrom.sizes")
        with open(cs_path, "w") as f:
            for n, L in zip(names, lengths):
                f.write(f"{n}\t{L}\n")
        args = ["makebins", cs_path, str(w)]
        if case["header"]:
            args.append("-H")
        if case["rel_ids"] is not None:
            args += ["-i", case["rel_ids"]]
        out_path = os.path.join(d, "bins.bed")
        if case["to_file"]:
            args += ["-o", out_path]
        if case["to_file"] and case["w"] % 2 == 0:
            # the output file already exists (an earlier run at another width): it must be replaced, not extended
            rc0, _, exc0 = run_cli(["makebins", cs_path, str(w + 3), "-o", out_path])
            check(rc0 == 0 and exc0 is None, f"makebins (earlier run) exit {rc0}: {exc0!r}")
        rc, out, exc = run_cli(args)
        check(rc == 0 and exc is None, f"makebins exit {rc}: {exc!r}")
        if case["to_file"]:
            with open(out_path) as f:
                out = f.read()
        want = model.bins_rows(model.binnify(names, lengths, w))
        lines = out.split("\n")
        check(lines[-1] == "", "makebins output does not end with a newline")
        lines = lines[:-1]
        if case["header"]:
            hdr = ["chrom", "start", "end"] + (["id"] if case["rel_ids"] is not None else [])
            check(lines[0].split("\t") == hdr, f"makebins header {lines[0]!r}")
            lines = lines[1:]
        check(len(lines) == len(want), f"makebins printed {len(lines)} rows, want {len(want)}")
        rel = 0
        prev = None
        for ln, (c, s, e) in zip(lines, want):
            f_ = ln.split("\t")
            check(f_[:3] == [c, str(s), str(e)], f"makebins row {ln!r} want {(c, s, e)}")
            if case["rel_ids"] is not None:
                rel = rel + 1 if prev == c else 0
                prev = c
                check(len(f_) == 4 and int(f_[3]) == rel + int(case["rel_ids"]),
                      f"makebins rel id in {ln!r}, want {rel + int(case['rel_ids'])}")
            else:
                check(len(f_) == 3, f"makebins row has {len(f_)} fields")
        # parse_bins, spelling 1: chromsizes:binsize
        cs, bins = call("parse_bins(chromsizes:binsize)", parse_bins, f"{cs_path}:{w}")
        check(_frame_rows(bins) == want, "parse_bins(chromsizes:binsize) differs from oracle")
        check(list(cs.index) == names and [int(v) for v in cs.values] == lengths, "parse_bins chromsizes")
        # a bin size written with a unit ("10kb", "4.1Mb", "2.01k"): refused, or - if a version accepts it - exactly the
        # integer it denotes
        from decimal import Decimal

        big_path = os.path.join(d, "big.chrom.sizes")
        big_names, big_lengths = ["chrA", "chrB"], [40_000_001, 4_100_000]
        with open(big_path, "w") as f:
            for n_, L_ in zip(big_names, big_lengths):
                f.write(f"{n_}\t{L_}\n")
        for spell in ("10kb", "4.1Mb", "8.2M", "2.01k", "64.1kb", "2.5Mb", "1k", "16.4M", "2.05Mb")[w % 3::3]:
            try:
                cs_u, bins_u = parse_bins(f"{big_path}:{spell}")
            except (Exception, SystemExit):  # noqa: BLE001 - refusal is the unchanged tree's answer
                continue
            num = spell.rstrip("bB")
            scale = {"k": 1000, "m": 10**6, "g": 10**9}[num[-1].lower()]
            denoted = Decimal(num[:-1]) * scale
            check(denoted == int(denoted), f"parse_bins accepted {spell!r}, which is not an integer number of bp")
            want_u = model.bins_rows(model.binnify(big_names, big_lengths, int(denoted)))
            check(_frame_rows(bins_u) == want_u,
                  lambda: f"parse_bins('<chromsizes>:{spell}') made bins of width {(bins_u['end'] - bins_u['start']).max()}, {spell} denotes {int(denoted)} bp")
        # spelling 2: BED file of bins (use the makebins output without header/ids)
        bed = os.path.join(d, "b.bed")
        with open(bed, "w") as f:
            for c, s, e in want:
                f.write(f"{c}\t{s}\t{e}\n")
        cs2, bins2 = call("parse_bins(bed)", parse_bins, bed)
        check(_frame_rows(bins2) == want, "parse_bins(bed) differs")
        check([str(x) for x in cs2.index] == names and [int(v) for v in cs2.values] == lengths,
              f"parse_bins(bed) chromsizes {dict(cs2)}")
        assert isinstance(bins2, pd.DataFrame)
    finally:
        ctx.clean(d)
    nt = any(L % w != 0 and L > w for L in lengths)
    ctx.record(case, nt, ["cli", f"rel_ids={case['rel_ids']}", f"header={case['header']}"])


# ---------------------------------------------------------------------------
# (d) what a created cooler reports
# ---------------------------------------------------------------------------

@st.composite
def cooler_cases(draw):
    bt = draw(gen.bin_tables(max_chroms=4, max_bins=5, max_width=8))
    # history: the same URI (root or a group) first holds a collection over ANOTHER table and is then re-created in append mode
    prior = draw(st.one_of(st.none(), gen.bin_tables(max_chroms=3, max_bins=5, max_width=8)))
    return {"part": "cooler", "bt": bt, "prior": prior, "group": draw(st.sampled_from(["/", "/", "/g", "/resolutions/3", "/resolutions/1000", "/resolutions/2"])),
            # user metadata whose keys happen to be names of standard fields: what is REPORTED stays what the table says
            "metadata": draw(st.sampled_from([None, None, {"bin-size": 5000, "bin-type": "variable", "nbins": 123456, "nchroms": 99},
                                              {"bin-size": None, "bin-type": "fixed", "note": "x"}]))}


def check_cooler(case, ctx: Ctx):
    import cooler

    from ..coolio import create_from_model

    bt = case["bt"]
    path = ctx.tmp(".cool")
    uri = path if case.get("group", "/") == "/" else path + "::" + case["group"]
    mkw = {"metadata": case["metadata"]} if case.get("metadata") else {}
    try:
        if case.get("prior") is not None:
            call("create_cooler (earlier collection)", create_from_model, uri, case["prior"], [], h5opts={"compression": None})
            old = cooler.Cooler(uri)
            check(old.binsize is None or model.tiles(case["prior"], int(old.binsize)), "earlier collection reports a wrong bin size")
            call("create_cooler (re-creation, append mode)", create_from_model, uri, bt, [], h5opts={"compression": None}, mode="a", **mkw)
        else:
            call("create_cooler", create_from_model, uri, bt, [], h5opts={"compression": None}, **mkw)
        clr = cooler.Cooler(uri)
        b = clr.binsize
        info = clr.info
        if case.get("prior") is not None:
            # the object that predates the re-creation reports what the file holds NOW
            # (the metadata QUERY re-reads the file; attributes such as .binsize are read once at construction by design
            # and are not judged here)
            ob, oi = old.binsize, old.info
            check(oi.get("bin-size") == info.get("bin-size") and oi.get("bin-type") == info.get("bin-type") and oi.get("nbins") == info.get("nbins"),
                  lambda: f"a Cooler object created before the collection was replaced reports info {oi.get('bin-size')}, {oi.get('bin-type')}, nbins {oi.get('nbins')}; the file now holds {b} / {info.get('bin-size')}, {info.get('bin-type')}, nbins {info.get('nbins')}")
        # the long listing reports a bin size per collection: the true one, or <variable>
        rc, out_txt, exc = run_cli(["ls", "-l", path])
        check(rc == 0 and exc is None, f"cooler ls -l failed: exit {rc} {exc!r}")
        tb_ = model.true_binsize(bt)
        claimed = [ln.split("\t")[-1].strip() for ln in out_txt.strip().split("\n") if ln.strip()]
        check(len(claimed) == 1, lambda: f"cooler ls -l lists {out_txt!r}")
        if claimed[0] != "<variable>":
            cb = int(claimed[0].replace(",", ""))
            check(model.tiles(bt, cb), lambda: f"cooler ls -l claims bin size {cb} for a table that is not a {cb}-tiling: {bt['edges']}")
        elif tb_ is not None:
            check(False, f"cooler ls -l says <variable> for a uniform table of width {tb_}")
        # the command-line metadata query reports the same fields
        for fld, want_txt in (("bin-size", str(model.true_binsize(bt))), ("bin-type", "fixed" if model.true_binsize(bt) is not None else "variable"),
                              ("nbins", str(gen.n_bins(bt))), ("nchroms", str(len(bt["names"])))):
            rc, out_txt, exc = run_cli(["info", "-f", fld, uri])
            check(rc == 0 and exc is None, f"cooler info -f {fld} failed: exit {rc} {exc!r}")
            check(out_txt.strip() == want_txt, lambda: f"cooler info -f {fld} prints {out_txt.strip()!r}, the stored table says {want_txt!r} (user metadata: {case.get('metadata')})")
        if b is not None:
            check(info["bin-type"] == "fixed", f"bin-size {b} but bin-type {info['bin-type']}")
            check(model.tiles(bt, int(b)),
                  lambda: f"Cooler.binsize = {b} for a table that is not a {b}-tiling: {bt['edges']}")
        else:
            check(info["bin-type"] == "variable", f"bin-size None but bin-type {info['bin-type']}")
        tb = model.true_binsize(bt)
        if tb is not None:
            check(b is not None and int(b) == tb, f"uniform {tb} table stored as bin-size {b}")
        sizes = clr.chromsizes
        check([str(x) for x in sizes.index] == list(bt["names"])
              and [int(v) for v in sizes.values] == [e[-1] for e in bt["edges"]],
              "Cooler.chromsizes differ from last bin ends")
    finally:
        ctx.clean(path)
    kinds = set(bt.get("kinds", []))
    longer_last = any(len(e) >= 3 and (e[-1] - e[-2]) > (e[1] - e[0]) for e in bt["edges"])
    ctx.record(case, bool(kinds - {"fixed"}) or longer_last,
               ["cooler", "reported-fixed" if b is not None else "reported-variable", "recreated" if case.get("prior") is not None else "fresh"])


CHECKS = {"binnify": check_binnify, "infer": check_infer, "cli": check_cli, "cooler": check_cooler}


def replay(ctx: Ctx, case):
    CHECKS[case["part"]](case, ctx)


def run(ctx: Ctx):
    q = ctx.tier == "quick"
    parts = []
    parts.append(enumerated_part(ctx, "binnify-enum", enum_binnify(ctx), check_binnify, every=100))
    ctx.exhaustive_subdomains["binnify: all single-chromosome (L<=40, w<=45)"] = 40 * 45 // ctx.nshards
    parts.append(enumerated_part(ctx, "infer-enum", enum_infer(ctx), check_infer, every=100))
    parts.append(given_part(ctx, "binnify", binnify_cases(), check_binnify, per_shard(ctx, 4000 if q else 80000)))
    parts.append(given_part(ctx, "infer", infer_cases(), check_infer, per_shard(ctx, 6000 if q else 150000)))
    parts.append(given_part(ctx, "cli", cli_cases(), check_cli, per_shard(ctx, 480 if q else 12000)))
    parts.append(given_part(ctx, "cooler", cooler_cases(), check_cooler, per_shard(ctx, 480 if q else 20000)))
    run_parts(ctx, parts)
