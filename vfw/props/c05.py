"""C05 - each valid input record is counted once, in the pixel that contains it."""
from __future__ import annotations

import os

import numpy as np
from hypothesis import strategies as st

from .. import gen, model
from ..cliutil import run_cli
from ..core import Ctx, Violation, call, check, must_raise, per_shard, run_given, given_part, machine_part, run_parts

PID = "C05"
LEVEL = "exploration"
SHARDS = {"quick": 8, "thorough": 16}
BUDGET = {"quick": 85, "thorough": 840}
RULE = (
    "Case = bin table (all layout kinds) x record multiset whose positions are drawn from the interesting points "
    "(every bin start, end-1, end, 0, L-1, L, L+1, -1) plus random ones x listed/unlisted chromosomes x both "
    "orientations x zero/one-based x tril_action reflect/drop/None x sided extra fields (strand) and an id column "
    "x record order x chunking. Routes: sanitize_records(+aggregate_records), sanitize_pixels, cooler cload "
    "pairs, cooler load -f coo|bg2 (small --chunksize => several chunks) and, thorough tier, TabixAggregator on "
    "pysam-indexed files. Oracle: per record by linear scan of the table. Non-trivial = >=1 record on a bin edge "
    "or chromosome end and >=1 reflected or dropped record. Distinct by sha1 of the canonical case."
    " Also: missing chromosome labels (None/'NA'/'null', dropped like any unlisted name); bin tables with lexically ordered categorical chrom (refusal accepted); sanitizer options left to their presets; chromosomes given as ids already (decode_chroms=False, with and without validation, every tril action); `cload pairs -N --input-copy-status duplex`; twice as many tabix cases."
)
ASSUMPTIONS = [
    "a record with an unlisted chromosome on either side is dropped before positions are looked at (as the code does); "
    "out-of-range positions are generated only on records whose two chromosomes are listed",
    "cooler load: records of one chunk map to distinct pixels (dupcheck), repeats are placed in different chunks",
]

# names that are not in the bin table; None is a missing label (NaN in a frame; the text routes write it as "None",
# which - like "NA" and "null" - pandas reads back as a missing value)
UNLISTED = ["chrUn", "scaffold_9", "chrM_x", "NA", None, "null"]


@st.composite
def record_sets(draw, max_records=14, allow_bad=True, allow_unlisted=True):
    bt = draw(gen.bin_tables(max_chroms=3, max_bins=4, max_width=7, scale=False, all_fixed_prob=0.4))
    if draw(st.integers(0, 7)) == 0:
        s = draw(st.sampled_from([1000, 100000]))
        bt = dict(bt, edges=[[x * s for x in e] for e in bt["edges"]], b=bt["b"] * s)
    if draw(st.integers(0, 5)) == 0:
        # Ensembl-style, purely numeric sequence names
        bt = dict(bt, names=[str(t + 1) for t in range(len(bt["names"]))])
    names = bt["names"]

    def pos_for(ci, bad):
        e = bt["edges"][ci]
        L = e[-1]
        good = sorted({0, L - 1, *[x for x in e if x < L], *[x - 1 for x in e if 0 < x]})
        if bad:
            return draw(st.sampled_from([L, L, L + 1, -1, L + 5]))
        return draw(st.one_of(st.sampled_from(good), st.integers(0, L - 1)))

    m = draw(st.integers(0, max_records))
    n_bad = draw(st.sampled_from([0, 0, 0, 0, 1])) if allow_bad else 0
    recs = []
    for t in range(m):
        unl = allow_unlisted and draw(st.integers(0, 6)) == 0
        c1 = draw(st.integers(0, len(names) - 1))
        c2 = draw(st.integers(0, len(names) - 1))
        bad1 = bad2 = False
        if n_bad and t == 0 and not unl:
            bad1 = draw(st.booleans())
            bad2 = not bad1
        p1, p2 = pos_for(c1, bad1), pos_for(c2, bad2)
        n1, n2 = names[c1], names[c2]
        if unl:
            if draw(st.booleans()):
                n1 = draw(st.sampled_from(UNLISTED))
            else:
                n2 = draw(st.sampled_from(UNLISTED))
        recs.append([n1, p1, n2, p2, draw(st.sampled_from("+-")), draw(st.sampled_from("+-")), t])
    return bt, recs


def expected(bt, recs, tril):
    """Per record id: None (dropped) or (bin1, bin2, reflected); plus validity of the whole set.

    Returns (status, out) with status 'ok' | 'invalid' | 'pos-eq-len' (only the known-finding kind of invalidity).
    """
    names = bt["names"]
    out = {}
    status = "ok"
    for n1, p1, n2, p2, s1, s2, rid in recs:
        if n1 not in names or n2 not in names:
            out[rid] = None
            continue
        c1, c2 = names.index(n1), names.index(n2)
        L1, L2 = bt["edges"][c1][-1], bt["edges"][c2][-1]
        for p, L in ((p1, L1), (p2, L2)):
            if p < 0 or p > L:
                status = "invalid"
            elif p == L and status != "invalid":
                status = "pos-eq-len"
        if not (0 <= p1 < L1 and 0 <= p2 < L2):
            out[rid] = "bad"
            continue
        lower = (c1 > c2) or (c1 == c2 and p1 > p2)
        b1, b2 = model.bin_of(bt, n1, p1), model.bin_of(bt, n2, p2)
        if lower and tril == "drop":
            out[rid] = None
        elif lower and tril == "reflect":
            out[rid] = (b2, b1, True)
        else:
            out[rid] = (b1, b2, False)
    return status, out


@st.composite
def api_cases(draw):
    bt, recs = draw(record_sets())
    return {"part": "records", "bt": bt, "records": recs, "one_based": draw(st.booleans()),
            "tril": draw(st.sampled_from(["reflect", "reflect", "drop", None])),
            "sort": draw(st.booleans()), "perm": draw(st.integers(0, 2**16)),
            # chrom column of the bin table: object, categorical in order of appearance, or categorical with categories
            # in LEXICAL order (what .astype("category") produces)
            "categorical_bins": draw(st.sampled_from([False, True, "lexical"]))}


def _frame(recs, one_based):
    import pandas as pd

    sh = 1 if one_based else 0
    return pd.DataFrame({
        "chrom1": pd.Series([r[0] for r in recs], dtype=object),
        "pos1": np.array([r[1] + sh for r in recs], dtype=np.int64),
        "chrom2": pd.Series([r[2] for r in recs], dtype=object),
        "pos2": np.array([r[3] + sh for r in recs], dtype=np.int64),
        "strand1": pd.Series([r[4] for r in recs], dtype=object),
        "strand2": pd.Series([r[5] for r in recs], dtype=object),
        "rid": np.array([r[6] for r in recs], dtype=np.int64),
    })


def _nt(bt, recs, exp):
    edge = False
    for n1, p1, n2, p2, *_ in recs:
        for n_, p in ((n1, p1), (n2, p2)):
            if n_ in bt["names"]:
                e = bt["edges"][bt["names"].index(n_)]
                if p in e or p + 1 in e:
                    edge = True
    refl_or_drop = any(v is None or (isinstance(v, tuple) and v[2]) for v in exp.values())
    return edge and refl_or_drop


def _neighbour_table(bt):
    """Same chromosome names, lengths and bin count; every interior edge that has room moves by one base pair."""
    edges, moved = [], False
    for e in bt["edges"]:
        e2 = list(e)
        for k in range(1, len(e2) - 1):
            if e2[k] + 1 < e2[k + 1]:
                e2[k] += 1
                moved = True
            elif e2[k] - 1 > e2[k - 1]:
                e2[k] -= 1
                moved = True
        edges.append(e2)
    if not moved:
        return None
    return {"names": list(bt["names"]), "edges": edges, "kinds": ["variable"] * len(edges), "b": bt.get("b")}


def check_records(case, ctx: Ctx):
    from cooler.create import aggregate_records, sanitize_records

    bt, recs = case["bt"], case["records"]
    order = np.random.RandomState(case["perm"]).permutation(len(recs)).tolist()
    shuffled = [recs[t] for t in order]
    status, exp = expected(bt, recs, case["tril"])
    bins = gen.bins_df(bt, categorical=bool(case["categorical_bins"]))
    skw = dict(schema="pairs", is_one_based=case["one_based"], tril_action=case["tril"],
               sided_fields=("chrom", "pos", "strand"), sort=case["sort"])
    prior_bt = _neighbour_table(bt) if case["perm"] % 3 == 0 else None
    if prior_bt is not None:
        # history: just before, the same process built a sanitizer for ANOTHER segmentation of the same chromosomes with the
        # same number of bins (interior bin edges moved by one base pair)
        try:
            sanitize_records(gen.bins_df(prior_bt), schema="pairs", sided_fields=("chrom", "pos", "strand"))
        except Exception:  # noqa: BLE001 - irrelevant for the case under test
            pass
    if case["categorical_bins"] == "lexical" and sorted(bt["names"]) != list(bt["names"]):
        bins["chrom"] = bins["chrom"].astype(object).astype("category")
        # such a table may be refused outright (the unchanged tree does, with an AssertionError); if it is accepted,
        # every record must still land in the bin that contains it
        try:
            sanitize = sanitize_records(bins, **skw)
        except Exception:  # noqa: BLE001
            ctx.record(case, False, ["records", "lexical-categorical-bins-refused"])
            return
    else:
        if len(recs) % 2 == 0:
            # options equal to the documented preset of the "pairs" schema are left out
            for name, default in (("is_one_based", False), ("tril_action", "reflect"), ("sort", False)):
                if skw[name] == default:
                    skw = {k: v for k, v in skw.items() if k != name}
        sanitize = call("sanitize_records()", sanitize_records, bins, **skw)
    df_in = _frame(shuffled, case["one_based"])
    if status == "invalid":
        must_raise("a record with a position outside its chromosome", sanitize, df_in)
        ctx.record(case, True, ["records", "invalid-rejected"])
        return
    try:
        out = sanitize(df_in)
    except Exception as e:  # noqa: BLE001
        if status == "pos-eq-len":
            ctx.record(case, True, ["records", "pos-eq-len-rejected"])
            return
        raise Violation(f"sanitize_records raised {type(e).__name__}: {e} on valid records") from e
    if status == "pos-eq-len":
        ctx.known_finding("C05-pos-eq-len", case, "zero-based anchor equal to the chromosome length passes validation")
    sh = 1 if case["one_based"] else 0
    byid = {r[6]: r for r in recs}
    got_ids = out["rid"].tolist()
    want_ids = sorted(r for r, v in exp.items() if v is not None and v != "bad")
    bad_ids = {r for r, v in exp.items() if v == "bad"}
    check(len(got_ids) == len(set(got_ids)), "a record appears twice in the sanitized output")
    check(sorted(set(got_ids) - bad_ids) == want_ids,
          lambda: f"retained records {sorted(got_ids)} differ from the expected {want_ids} (tril_action={case['tril']})")
    for rid, b1, b2, c1, p1, c2, p2, s1, s2 in zip(got_ids, out["bin1_id"].tolist(), out["bin2_id"].tolist(),
                                                   out["chrom1"].tolist(), out["pos1"].tolist(), out["chrom2"].tolist(),
                                                   out["pos2"].tolist(), out["strand1"].tolist(), out["strand2"].tolist()):
        if rid in bad_ids:
            continue
        w1, w2, refl = exp[rid]
        r = byid[rid]
        check((b1, b2) == (w1, w2),
              lambda: f"record {r[:4]} ({'one' if sh else 'zero'}-based input, tril={case['tril']}) assigned to pixel ({b1},{b2}), "
                      f"its anchors lie in bins ({w1},{w2}); edges {dict(zip(bt['names'], bt['edges']))}")
        want_sided = (r[2], r[3] + sh, r[0], r[1] + sh, r[5], r[4]) if refl else (r[0], r[1] + sh, r[2], r[3] + sh, r[4], r[5])
        check((c1, p1, c2, p2, s1, s2) == want_sided,
              lambda: f"sided fields of record {r} after {'reflection' if refl else 'no reflection'}: {(c1, p1, c2, p2, s1, s2)} want {want_sided}")
    if case["sort"]:
        keys = list(zip(out["bin1_id"].tolist(), out["bin2_id"].tolist()))
        check(keys == sorted(keys), "sort=True output is not sorted by (bin1_id, bin2_id)")
    if status == "ok" and not case["sort"]:
        # the same records with chromosomes given as ids already (decode_chroms=False; unlisted = -1, dropped by the
        # documented filter whether or not the positions are validated)
        ids = {nm: k for k, nm in enumerate(bt["names"])}
        # (a pristine frame: the sanitizer works on the frame it is given and has already mirrored df_in's records)
        df2 = _frame(shuffled, case["one_based"])
        df2["chrom1"] = np.array([ids.get(c, -1) for c in df2["chrom1"]], dtype=np.int64)
        df2["chrom2"] = np.array([ids.get(c, -1) for c in df2["chrom2"]], dtype=np.int64)
        for validate in (True, False):
            san2 = call("sanitize_records(decode_chroms=False)", sanitize_records, gen.bins_df(bt), schema="pairs", decode_chroms=False,
                        is_one_based=case["one_based"], tril_action=case["tril"], validate=validate)
            # (the chunk is a copy of a frame, as chunks cut from a larger table are: under copy-on-write pandas its
            # columns are then read-only views)
            o2 = call(f"sanitize_records(decode_chroms=False, tril_action={case['tril']!r}, validate={validate})(chunk)", san2, df2.copy())
            got2 = sorted(zip(o2["rid"].tolist(), o2["bin1_id"].tolist(), o2["bin2_id"].tolist()))
            want2 = sorted((rid, exp[rid][0], exp[rid][1]) for rid in want_ids)
            check(got2 == want2, lambda: f"pre-encoded chromosome ids, validate={validate}: (record, bin1, bin2) {got2[:6]} want {want2[:6]}")
    if status == "ok":
        agg = call("aggregate_records()", aggregate_records(), out)
        counts: dict = {}
        for rid in want_ids:
            counts[exp[rid][:2]] = counts.get(exp[rid][:2], 0) + 1
        got = {(a, b): c for a, b, c in zip(agg["bin1_id"].tolist(), agg["bin2_id"].tolist(), agg["count"].tolist())}
        check(got == counts, lambda: f"aggregated pixel counts {got} differ from {counts}")
        check(sum(got.values()) == len(want_ids), "total differs from the number of retained records")
    ctx.record(case, _nt(bt, recs, exp), ["records", "tril=" + str(case["tril"]), "one-based" if sh else "zero-based",
                                          "status=" + status, "kinds=" + "+".join(sorted(set(bt["kinds"]))),
                                          "has-unlisted" if any(v is None for v in exp.values()) else "all-listed"])


# ---------------------------------------------------------------------------
# sanitize_pixels
# ---------------------------------------------------------------------------

@st.composite
def pixel_cases(draw):
    n = draw(st.integers(1, 12))
    m = draw(st.integers(0, 14))
    recs = [[draw(st.integers(0, n - 1)), draw(st.integers(0, n - 1)), draw(st.integers(1, 9)),
             draw(st.sampled_from("+-")), draw(st.sampled_from("+-")), t] for t in range(m)]
    return {"part": "pixels", "n": n, "records": recs, "one_based": draw(st.booleans()),
            "tril": draw(st.sampled_from(["reflect", "reflect", "drop", None])), "sort": draw(st.booleans())}


def check_pixels(case, ctx: Ctx):
    import pandas as pd

    from cooler.create import sanitize_pixels

    n, recs = case["n"], case["records"]
    bt = {"names": ["c"], "edges": [[10 * k for k in range(n + 1)]], "kinds": ["fixed"]}
    sh = 1 if case["one_based"] else 0
    df = pd.DataFrame({"bin1_id": np.array([r[0] + sh for r in recs], dtype=np.int64),
                       "bin2_id": np.array([r[1] + sh for r in recs], dtype=np.int64),
                       "count": np.array([r[2] for r in recs], dtype=np.int64),
                       "strand1": pd.Series([r[3] for r in recs], dtype=object),
                       "strand2": pd.Series([r[4] for r in recs], dtype=object),
                       "rid": np.array([r[5] for r in recs], dtype=np.int64)})
    skw = dict(is_one_based=case["one_based"], tril_action=case["tril"], sided_fields=("strand",), sort=case["sort"])
    if len(recs) % 2 == 0:
        # options equal to the documented defaults (zero-based ids, mirror lower-triangle records, sort) are left out
        for name, default in (("is_one_based", False), ("tril_action", "reflect"), ("sort", True)):
            if skw[name] == default:
                del skw[name]
    f = call("sanitize_pixels()", sanitize_pixels, gen.bins_df(bt), **skw)
    out = call("sanitize_pixels(chunk)", f, df)
    want = {}
    for i, j, v, s1, s2, rid in recs:
        if i > j and case["tril"] == "drop":
            continue
        if i > j and case["tril"] == "reflect":
            want[rid] = (j, i, v, s2, s1)
        else:
            want[rid] = (i, j, v, s1, s2)
    got = {rid: (a, b, v, s1, s2) for rid, a, b, v, s1, s2 in zip(out["rid"].tolist(), out["bin1_id"].tolist(), out["bin2_id"].tolist(),
                                                                  out["count"].tolist(), out["strand1"].tolist(), out["strand2"].tolist())}
    check(len(out) == len(got), "a pixel record appears twice")
    check(got == want, lambda: f"sanitize_pixels (one_based={case['one_based']}, tril={case['tril']}): got {got} want {want}")
    if case["sort"]:
        keys = list(zip(out["bin1_id"].tolist(), out["bin2_id"].tolist()))
        check(keys == sorted(keys), "sort=True output unsorted")
    ctx.record(case, any(r[0] > r[1] for r in recs) and len(recs) >= 2, ["pixels", "tril=" + str(case["tril"])])


# ---------------------------------------------------------------------------
# text loaders
# ---------------------------------------------------------------------------

@st.composite
def cli_pairs_cases(draw):
    bt, recs = draw(record_sets(max_records=12))
    return {"part": "cli_pairs", "bt": bt, "records": recs, "zero_based": draw(st.booleans()),
            # "square-duplex": -N together with --input-copy-status duplex - the copy status only matters for
            # symmetric-upper storage, a square matrix keeps every record where it is
            "copy": draw(st.sampled_from(["unique", "unique", "duplex", "square", "square-duplex"])),
            "chunksize": draw(st.sampled_from([1, 2, 3, 5, 1000])), "perm": draw(st.integers(0, 2**16)),
            "bins_as": draw(st.sampled_from(["bed", "bed", "chromsizes"])), "header": draw(st.booleans())}


def _write_bins(d, bt, how):
    """Returns the BINS argument. 'chromsizes' spelling only when the table is a true tiling."""
    b = model.true_binsize(bt)
    if how == "chromsizes" and b is not None:
        p = os.path.join(d, "x.chrom.sizes")
        with open(p, "w") as f:
            for n_, e in zip(bt["names"], bt["edges"]):
                f.write(f"{n_}\t{e[-1]}\n")
        return f"{p}:{b}"
    p = os.path.join(d, "bins.bed")
    with open(p, "w") as f:
        for c, s, e in model.bins_rows(bt):
            f.write(f"{c}\t{s}\t{e}\n")
    return p


def _read_cooler(path):
    import h5py

    import cooler

    from .. import schema

    with h5py.File(path, "r") as f:
        probs = schema.validate(f["/"])
    check(not probs, lambda: f"the loader wrote a structurally invalid collection: {probs[:3]}")
    clr = cooler.Cooler(path)
    df = clr.pixels()[:]
    return clr, {(a, b): c for a, b, c in zip(df["bin1_id"].tolist(), df["bin2_id"].tolist(), df["count"].tolist())}


def check_cli_pairs(case, ctx: Ctx):
    bt, recs = case["bt"], case["records"]
    tril = {"unique": "reflect", "duplex": "drop", "square": None, "square-duplex": None}[case["copy"]]
    status, exp = expected(bt, recs, tril)
    order = np.random.RandomState(case["perm"]).permutation(len(recs)).tolist()
    sh = 0 if case["zero_based"] else 1
    d = ctx.tmpdir()
    try:
        bins_arg = _write_bins(d, bt, case["bins_as"])
        pairs = os.path.join(d, "in.pairs")
        with open(pairs, "w") as f:
            if case["header"]:
                f.write("## pairs format v1.0\n#columns: readID chr1 pos1 chr2 pos2 strand1 strand2\n")
            for t in order:
                r = recs[t]
                f.write(f"r{r[6]}\t{r[0]}\t{r[1] + sh}\t{r[2]}\t{r[3] + sh}\t{r[4]}\t{r[5]}\n")
        out = os.path.join(d, "out.cool")
        args = ["cload", "pairs", bins_arg, pairs, out, "-c1", "2", "-p1", "3", "-c2", "4", "-p2", "5",
                "--chunksize", str(case["chunksize"]),
                # a small fan-in of the merge step whenever the text is read in many chunks (two-pass merge)
                *(["--max-merge", "2"] if case["chunksize"] <= 2 and case["perm"] % 2 else [])]
        tdir = None
        if case["perm"] % 3 == 1:
            # scratch files go to a directory of the caller's choice and none of them outlives a successful run
            tdir = os.path.join(d, "scratch")
            os.makedirs(tdir)
            args += ["--temp-dir", tdir]
        if case["zero_based"]:
            args.append("--zero-based")
        if case["copy"] in ("duplex", "square-duplex"):
            args += ["--input-copy-status", "duplex"]
        if case["copy"] in ("square", "square-duplex"):
            args.append("-N")
        rc, _, exc = run_cli(args)
        if status == "invalid":
            check(rc != 0, "cload pairs accepted a record with a position outside its chromosome")
            ctx.record(case, True, ["cli_pairs", "invalid-rejected"])
            return
        if status == "pos-eq-len":
            if rc == 0:
                ctx.known_finding("C05-pos-eq-len", case, "cload pairs accepts a zero-based position equal to the chromosome length")
            ctx.record(case, True, ["cli_pairs", "pos-eq-len"])
            return
        check(rc == 0 and exc is None, f"cooler cload pairs failed on valid input: exit {rc} {exc!r}")
        if tdir is not None:
            left = sorted(os.listdir(tdir))
            check(not left, lambda: f"cooler cload pairs --temp-dir: scratch files outlive a successful run: {left}")
        clr, got = _read_cooler(out)
        counts: dict = {}
        for v in exp.values():
            if v is not None:
                counts[v[:2]] = counts.get(v[:2], 0) + 1
        check(got == counts, lambda: f"cload pairs ({case['copy']}, {'zero' if case['zero_based'] else 'one'}-based, chunksize "
                                     f"{case['chunksize']}): pixels {got} want {counts}; edges {dict(zip(bt['names'], bt['edges']))}")
        check(clr.info["sum"] == sum(counts.values()), "total differs from the number of retained records")
    finally:
        ctx.clean(d)
    ctx.record(case, _nt(bt, recs, exp), ["cli_pairs", "copy=" + case["copy"], "zero-based" if case["zero_based"] else "one-based",
                                          f"chunksize={case['chunksize']}", "bins=" + case["bins_as"]])


@st.composite
def cli_load_cases(draw):
    bt = draw(gen.bin_tables(max_chroms=3, max_bins=4, max_width=7, scale=False, all_fixed_prob=0.4))
    n = gen.n_bins(bt)
    m = draw(st.integers(0, 10))
    recs = [[draw(st.integers(0, n - 1)), draw(st.integers(0, n - 1)), draw(st.integers(1, 50))] for _ in range(m)]
    fmt = draw(st.sampled_from(["coo", "bg2", "bg2"]))
    bad = draw(st.sampled_from([None] * 4 + ["neg", "beyond", "beyond", "beyond-both", "eq-len"])) if m else None
    if bad == "eq-len" and fmt == "coo":
        bad = "beyond"
    if bad == "beyond-both" and fmt != "coo":
        bad = "beyond"
    return {"part": "cli_load", "bt": bt, "records": recs, "fmt": fmt, "one_based": draw(st.booleans()),
            "copy": draw(st.sampled_from(["unique", "unique", "duplex", "square", "square-duplex"])),
            "chunksize": draw(st.sampled_from([1, 2, 3, 1000])), "perm": draw(st.integers(0, 2**16)),
            "bins_as": draw(st.sampled_from(["bed", "chromsizes"])), "bad": bad, "bad_side": draw(st.integers(0, 1)),
            # a leading record-id column shifts every positional column: the format's own fields are overridden with --field
            "shift": draw(st.sampled_from([0, 0, 1, 2]))}


def check_cli_load(case, ctx: Ctx):
    bt, recs, fmt = case["bt"], case["records"], case["fmt"]
    # --input-copy-status is documented for symmetric-upper storage only: with -N nothing is mirrored or dropped
    tril = {"unique": "reflect", "duplex": "drop", "square": None, "square-duplex": None}[case["copy"]]
    sh = 1 if case["one_based"] else 0
    n = gen.n_bins(bt)
    br = model.bins_rows(bt)
    lens = dict(zip(bt["names"], [e[-1] for e in bt["edges"]]))
    lines, want = [], {}
    bad_dropped_as_lower = False
    for t, (b1, b2, cnt) in enumerate(recs):
        bad = case["bad"] if t == 0 else None
        if fmt == "coo":
            ids = [b1, b2]
            if bad == "neg":
                ids[case["bad_side"]] = -1
            elif bad == "beyond":
                ids[case["bad_side"]] = n
            elif bad == "beyond-both":
                ids = [n + case["bad_side"], n + 1]       # both ids outside the matrix (still upper-triangular)
            if bad and tril == "drop" and ids[0] > ids[1]:
                # in duplex mode every lower-triangle record is discarded as selected - including this one, whose
                # out-of-range id makes it a lower-triangle record; discarding it is not a mis-assignment
                bad_dropped_as_lower = True
            lines.append(f"{ids[0] + sh}\t{ids[1] + sh}\t{cnt}")
        else:
            side = [[br[b1][0], br[b1][1], br[b1][2]], [br[b2][0], br[b2][1], br[b2][2]]]
            if bad is not None:
                c = side[case["bad_side"]]
                L = lens[c[0]]
                c[1] = {"neg": -1, "beyond": L + 1, "eq-len": L}[bad]
                c[2] = c[1] + 1
            lines.append(f"{side[0][0]}\t{side[0][1] + sh}\t{side[0][2]}\t{side[1][0]}\t{side[1][1] + sh}\t{side[1][2]}\t{cnt}")
        if bad is None:
            if b1 > b2 and tril == "drop":
                continue
            key = (b2, b1) if (b1 > b2 and tril == "reflect") else (b1, b2)
            want.setdefault(key, []).append(cnt)
    order = np.random.RandomState(case["perm"]).permutation(len(lines)).tolist()
    # dupcheck: one chunk must not hold two records of the same pixel -> one record per chunk then
    flat = [k for k, vs in want.items() for _ in vs]
    chunksize = 1 if len(flat) != len(set(flat)) else case["chunksize"]
    d = ctx.tmpdir()
    try:
        bins_arg = _write_bins(d, bt, case["bins_as"])
        txt = os.path.join(d, "in.txt")
        sh_cols = case.get("shift", 0)
        with open(txt, "w") as f:
            f.write("# comment line\n")
            for t in order:
                f.write("".join(f"id{t}_{k}\t" for k in range(sh_cols)) + lines[t] + "\n")
        out = os.path.join(d, "out.cool")
        args = ["load", "-f", fmt, bins_arg, txt, out, "--chunksize", str(chunksize)]
        if chunksize <= 2 and case["perm"] % 2:
            args += ["--max-merge", "2"]
        if sh_cols:
            pos = ["bin1_id", "bin2_id", "count"] if fmt == "coo" else ["chrom1", "start1", "end1", "chrom2", "start2", "end2", "count"]
            for k, nm in enumerate(pos):
                args += ["--field", f"{nm}={k + 1 + sh_cols}"]
        if case["one_based"]:
            args.append("--one-based")
        if case["copy"] in ("duplex", "square-duplex"):
            args += ["--input-copy-status", "duplex"]
        if case["copy"] in ("square", "square-duplex"):
            args.append("-N")
        rc, _, exc = run_cli(args)
        if case["bad"] in ("neg", "beyond", "beyond-both") and not bad_dropped_as_lower:
            check(rc != 0, f"cooler load -f {fmt} accepted a record outside the matrix/chromosome ({case['bad']})")
            ctx.record(case, True, ["cli_load", "invalid-rejected", "fmt=" + fmt])
            return
        if bad_dropped_as_lower and rc != 0:
            ctx.record(case, True, ["cli_load", "invalid-rejected", "fmt=" + fmt])
            return
        if case["bad"] == "eq-len":
            if rc == 0:
                ctx.known_finding("C05-pos-eq-len", case, "cooler load -f bg2 accepts a start equal to the chromosome length")
            ctx.record(case, True, ["cli_load", "pos-eq-len", "fmt=" + fmt])
            return
        check(rc == 0 and exc is None, f"cooler load -f {fmt} failed on valid input: exit {rc} {exc!r}")
        clr, got = _read_cooler(out)
        wantsum = {k: sum(v) for k, v in want.items()}
        check(got == wantsum, lambda: f"load -f {fmt} ({case['copy']}, one_based={case['one_based']}, chunksize {chunksize}): "
                                      f"pixels {got} want {wantsum}; edges {dict(zip(bt['names'], bt['edges']))}")
        check(clr.info["sum"] == sum(wantsum.values()), "total differs")
    finally:
        ctx.clean(d)
    ctx.record(case, len(recs) >= 2 and any(r[0] > r[1] for r in recs),
               ["cli_load", "fmt=" + fmt, "copy=" + case["copy"], f"chunksize={chunksize}", "one-based" if sh else "zero-based",
                f"shifted-columns={case.get('shift', 0)}"])


# ---------------------------------------------------------------------------
# tabix-indexed loader (thorough tier)
# ---------------------------------------------------------------------------

@st.composite
def tabix_cases(draw):
    bt, recs = draw(record_sets(max_records=12, allow_bad=False, allow_unlisted=True))
    return {"part": "tabix", "bt": bt, "records": recs, "zero_based": draw(st.booleans()),
            "n_chunks": draw(st.sampled_from([1, 2, 3])), "bad_pos2": draw(st.sampled_from([None] * 5 + [1, 7])),
            "via": draw(st.sampled_from(["api", "cli", "cli-p2"]))}


def check_tabix(case, ctx: Ctx):
    import pysam

    import cooler
    from cooler.create import TabixAggregator

    bt, recs = case["bt"], case["records"]
    names = bt["names"]
    sh = 0 if case["zero_based"] else 1
    # the loader documents sorted, upper-triangular ("flipped") input: do that here
    rows = []
    for n1, p1, n2, p2, s1, s2, rid in recs:
        k1 = (names.index(n1) if n1 in names else 99, p1)
        k2 = (names.index(n2) if n2 in names else 99, p2)
        if k1 > k2:
            n1, p1, n2, p2 = n2, p2, n1, p1
        rows.append((n1, p1, n2, p2))
    rows = [r for r in rows if r[0] in names]      # first side must be a listed contig for the index order
    bad = case["bad_pos2"]
    if bad is not None and rows:
        # side 2 beyond its chromosome (kept upper-triangular): must be rejected, not binned elsewhere
        n1, p1, n2, p2 = rows[0]
        if n2 in names:
            rows[0] = (n1, p1, n2, bt["edges"][names.index(n2)][-1] + bad)
        else:
            bad = None
    else:
        bad = None
    rows.sort(key=lambda r: (names.index(r[0]), r[1]))
    if not rows:
        ctx.record(case, False, ["tabix", "tabix-empty"])
        return
    d = ctx.tmpdir()
    try:
        txt = os.path.join(d, "c.txt")
        with open(txt, "w") as f:
            for n1, p1, n2, p2 in rows:
                f.write(f"{n1}\t{p1 + sh}\t{n2}\t{p2 + sh}\n")
        gz = call("pysam.tabix_index", pysam.tabix_index, txt, seq_col=0, start_col=1, end_col=1,
                  zerobased=bool(case["zero_based"]), force=True)
        bins = gen.bins_df(bt)
        cs = gen.chromsizes_series(bt)
        out = os.path.join(d, "out.cool")

        def go():
            if case.get("via", "api") == "api":
                agg = TabixAggregator(gz, cs, bins, n_chunks=case["n_chunks"], is_one_based=not case["zero_based"], C2=2, P2=3)
                cooler.create_cooler(out, bins, agg, ordered=True)
            else:
                args = ["cload", "tabix", _write_bins(d, bt, "bed"), gz, out, "-c2", "3", "-p2", "4", "-s", str(case["n_chunks"]),
                        "-p", "2" if case["via"] == "cli-p2" else "1"]
                if case["zero_based"]:
                    args.append("-0")
                rc, _, exc = run_cli(args)
                if rc != 0 or exc is not None:
                    raise RuntimeError(f"cooler cload tabix failed: exit {rc} {exc!r}")

        if bad is not None:
            try:
                go()
            except Exception:  # noqa: BLE001 - rejection is the required outcome
                ctx.record(case, True, ["tabix", "tabix-bad-rejected"])
                return
            ctx.known_finding("C05-tabix-no-bounds-check", case, "tabix loader bins a pos2 beyond its chromosome into another bin/chromosome")
            ctx.record(case, True, ["tabix", "tabix-bad-accepted"])
            return
        call("TabixAggregator + create_cooler", go)
        _, got = _read_cooler(out)
        counts: dict = {}
        for n1, p1, n2, p2 in rows:
            if n2 not in names:
                continue
            k = (model.bin_of(bt, n1, p1), model.bin_of(bt, n2, p2))
            counts[k] = counts.get(k, 0) + 1
        check(got == counts, lambda: f"tabix loader ({'zero' if case['zero_based'] else 'one'}-based): pixels {got} want {counts}; "
                                     f"edges {dict(zip(bt['names'], bt['edges']))} rows {rows}")
    finally:
        ctx.clean(d)
    ctx.record(case, len(rows) >= 2, ["tabix", "zero-based" if case["zero_based"] else "one-based", f"n_chunks={case['n_chunks']}", "tabix-via=" + case.get("via", "api")])


CHECKS = {"records": check_records, "pixels": check_pixels, "cli_pairs": check_cli_pairs, "cli_load": check_cli_load,
          "tabix": check_tabix}


def replay(ctx: Ctx, case):
    CHECKS[case["part"]](case, ctx)


def run(ctx: Ctx):
    q = ctx.tier == "quick"
    parts = []
    parts.append(given_part(ctx, "records", api_cases(), check_records, per_shard(ctx, 4000 if q else 100000)))
    parts.append(given_part(ctx, "pixels", pixel_cases(), check_pixels, per_shard(ctx, 1600 if q else 30000)))
    parts.append(given_part(ctx, "cli_pairs", cli_pairs_cases(), check_cli_pairs, per_shard(ctx, 160 if q else 3200), batch=20))
    parts.append(given_part(ctx, "cli_load", cli_load_cases(), check_cli_load, per_shard(ctx, 160 if q else 3200), batch=20))
    parts.append(given_part(ctx, "tabix", tabix_cases(), check_tabix, per_shard(ctx, 96 if q else 2400), batch=12))
    run_parts(ctx, parts)
