"""C13 - invalid input or a failed write never yields a cooler nor harms its neighbours."""
from __future__ import annotations

import os
import shutil

import numpy as np
from hypothesis import strategies as st

from .. import gen, model
from ..core import Ctx, Violation, call, check, digest, must_raise, per_shard, run_given, given_part, machine_part, run_parts

PID = "C13"
LEVEL = "fault_enumeration"
SHARDS = {"quick": 8, "thorough": 16}
BUDGET = {"quick": 85, "thorough": 840}
RULE = (
    "Outer cases (Hypothesis): a valid sorted pixel stream cut into m<=4 chunks of <=5 records x storage mode x "
    "producer (create ordered, create unordered, merge_coolers, coarsen_cooler, the cooler load text loader with unique/duplex input) x destination (new file at / or "
    "a group; new group beside 1..3 neighbour collections at /, /a, /g/b; an existing plain non-root group). For "
    "each outer case the fault space is ENUMERATED COMPLETELY: {bin id -1, bin id n, lower-triangle pixel "
    "(symmetric mode), in-chunk duplicate adjacent to / far from its original} x every chunk x every record position, plus an exception raised by the "
    "input iterator before every chunk index 0..m (merge/coarsen: injected by wrapping their chunk iterators), "
    "plus - thorough tier - a hard os._exit before every chunk index in a forked child. The file is restored from "
    "a pristine copy before each fault. Oracle over the history: the call raises (child dies); is_cooler(dest) is "
    "False without raising and dest is not listed (the recognition test and the listing are what the property names; opening the partial group with Cooler() is not required to fail); a deep digest (all datasets and attributes, "
    "raw h5py) of every neighbour is unchanged and each still reads as its model. Each fault is one evaluation. "
    "Non-trivial = fault at chunk index >= 1 (data already written) with >= 1 neighbour. Distinct by (digest of "
    "the outer case, fault)."
    " Also (part wide): ONE table of more than 2**17 rows given as a single chunk (frame, dict of arrays, one-chunk iterable) with a duplicated pixel whose two copies sit on either side of every power-of-two row number 2**10..2**17, of 10**3..10**5 and of generated row numbers - refused, nothing recognised."
    " Destination kind alias: the destination is a hard or soft link to a neighbour collection (it already holds a cooler: only the neighbours - the collection under its own name included - are judged)."
    " Also: destination '/' in append mode beside collections in sub-groups; a fault in the very last step (metadata that cannot be serialised, after all chunks and the indexes were written)."
)
ASSUMPTIONS = [
    "crash points are chunk boundaries (exception or hard process exit between chunks), as the property states; "
    "a power loss inside an HDF5 library write is outside the property",
    "destinations nested under an occupied collection path are not generated (re-creation replaces a whole subtree by design, C15)",
]


class Injected(RuntimeError):
    pass


@st.composite
def cases(draw):
    bt = draw(gen.bin_tables(max_chroms=2, max_bins=4, max_width=6, scale=False))
    n = gen.n_bins(bt)
    symmetric = draw(st.booleans())
    rows = draw(gen.pixels(n, symmetric, count=st.integers(1, 99), max_nnz=14))
    m = draw(st.integers(1, 4))
    cuts = sorted(draw(st.lists(st.integers(0, len(rows)), min_size=m - 1, max_size=m - 1)))
    chunks = [c[:5] for c in gen.split_at(rows, cuts)]
    producer = draw(st.sampled_from(["ordered", "ordered", "unordered", "merge", "coarsen", "cli-load"]))
    destkind = draw(st.sampled_from(["newfile", "multi", "multi", "plain", "alias"]))
    neigh = draw(st.lists(st.sampled_from(["/", "/a", "/g/b"]), min_size=1, max_size=3, unique=True)) if destkind != "newfile" else []
    dest = draw(st.sampled_from(["/", "/grp"])) if destkind == "newfile" else \
        (draw(st.sampled_from(["/new", "/g/new"] + ([] if "/" in neigh else ["/", "/"]))) if destkind == "multi"
         else draw(st.sampled_from(["/alias", "/g/alias"])) if destkind == "alias"
         else draw(st.sampled_from(["/plain", "/g/plain"])))
    if destkind == "alias" and neigh == ["/"]:
        neigh = ["/a"]          # the alias points at a non-root neighbour
    nrows = draw(gen.pixels(n, symmetric, count=st.integers(1, 9), max_nnz=6))
    return {"part": "faults", "bt": bt, "symmetric": symmetric, "chunks": chunks, "producer": producer,
            "destkind": destkind, "neighbours": sorted(neigh), "dest": dest, "neighbour_rows": nrows,
            "alias_soft": draw(st.booleans()),
            "copy_status": draw(st.sampled_from(["unique", "duplex"])), "hard": draw(st.integers(0, 7)) == 0, "mergebuf": draw(st.sampled_from([1, 2, 4])), "k": draw(st.integers(2, 3)), "chunksize": draw(st.sampled_from([1, 2, 3]))}


def _faulty_chunks(chunks, n, symmetric):
    """Enumerate (label, chunk_index, faulty stream) for every record fault, small to large."""
    for k, ch in enumerate(chunks):
        for p, r in enumerate(ch):
            for kind in ("neg", "big", "tril", "dup", "dupfar"):
                new = [list(x) for x in ch]
                if kind == "neg":
                    new[p][p % 2] = -1
                elif kind == "big":
                    new[p][(p + 1) % 2] = n
                elif kind == "tril":
                    if not symmetric:
                        continue
                    if r[0] != r[1]:
                        new[p][0], new[p][1] = r[1], r[0]
                    elif r[0] + 1 < n:
                        new[p][0], new[p][1] = r[0] + 1, r[0]
                    elif r[0] >= 1:
                        new[p][0], new[p][1] = r[0], r[0] - 1
                    else:
                        continue
                elif kind == "dup":
                    new.insert(p, list(r))
                else:
                    # the copy is placed as far from the original as the chunk allows (not adjacent)
                    if len(ch) < 2:
                        continue
                    if p < len(ch) - 1:
                        new.append(list(r))
                    else:
                        new.insert(0, list(r))
                yield f"{kind}@chunk{k}[{p}]", k, [*chunks[:k], new, *chunks[k + 1:]]


class Setup:
    def __init__(self, ctx: Ctx, case):
        from ..coolio import create_from_model, h5_deep_digest

        self.ctx, self.case = ctx, case
        self.dir = ctx.tmpdir()
        self.file = os.path.join(self.dir, "out.cool")
        self.pristine = os.path.join(self.dir, "pristine.cool")
        bt = case["bt"]
        for g in case["neighbours"]:
            call("create neighbour", create_from_model, self.file + "::" + g, bt, case["neighbour_rows"], case["symmetric"],
                 mode="a" if os.path.exists(self.file) else "w", h5opts={"compression": None})
        if case["destkind"] == "plain":
            import h5py

            with h5py.File(self.file, "r+") as f:
                g = f.create_group(case["dest"])
                g.attrs["what"] = "not a cooler"
                g.create_dataset("stuff", data=np.arange(4))
        if case["destkind"] == "alias":
            # the destination is a second NAME (hard or soft link) of a neighbour collection: it "already holds a cooler", so
            # only the neighbours are judged after a failed re-creation there - in particular the collection under its own name
            from cooler.fileops import ln

            target = next(g for g in case["neighbours"] if g != "/")
            call("ln (alias of a neighbour)", ln, self.file + "::" + target, self.file + "::" + case["dest"], soft=bool(case.get("alias_soft")))
        if os.path.exists(self.file):
            shutil.copy(self.file, self.pristine)
        self.digests = {}
        if case["neighbours"]:
            import h5py

            with h5py.File(self.file, "r") as f:
                for g in case["neighbours"]:
                    self.digests[g] = self._ndigest(f, g)
        # inputs for merge / coarsen producers
        self.inputs = []
        rows = [r for c in case["chunks"] for r in c]
        if case["producer"] == "merge":
            half = len(rows) // 2
            for t, part in enumerate((rows[:half] + rows[half:][::2], rows[half:])):
                p = os.path.join(self.dir, f"in{t}.cool")
                call("create merge input", create_from_model, p, bt, sorted(part), case["symmetric"], h5opts={"compression": None})
                self.inputs.append(p)
        elif case["producer"] == "coarsen":
            p = os.path.join(self.dir, "base.cool")
            call("create coarsen input", create_from_model, p, bt, rows, case["symmetric"], h5opts={"compression": None})
            self.inputs.append(p)

    def _ndigest(self, f, g):
        from ..coolio import h5_deep_digest

        if g == "/":
            # the root collection = its four groups and its attributes (other groups of the file are separate collections)
            import hashlib

            h = hashlib.sha1()
            for k in ("chroms", "bins", "pixels", "indexes"):
                h.update(h5_deep_digest(f[k]).encode())
            h.update(repr(sorted((k, str(v)) for k, v in f.attrs.items())).encode())
            return h.hexdigest()
        return h5_deep_digest(f[g])

    def restore(self):
        if os.path.exists(self.pristine):
            shutil.copy(self.pristine, self.file)
        elif os.path.exists(self.file):
            os.remove(self.file)
        for x in os.listdir(self.dir):
            if x.endswith(".multi.cool"):
                os.remove(os.path.join(self.dir, x))

    @property
    def dest_uri(self):
        return self.file + "::" + self.case["dest"]

    def close(self):
        self.ctx.clean(self.dir)

    # -- the three parts of the oracle -------------------------------------------
    def verify_after_failure(self, label):
        import h5py

        import cooler
        from cooler.fileops import is_cooler, list_coolers

        case = self.case
        alias = case["destkind"] == "alias"
        if not alias:
            r = call(f"is_cooler(dest) after {label}", is_cooler, self.dest_uri)
            check(r is False, f"after {label}: the destination is recognised as a cooler")
        if os.path.exists(self.file) and h5py.is_hdf5(self.file):
            listed = call(f"list_coolers after {label}", list_coolers, self.file)
            if alias:
                check(set(case["neighbours"]) <= set(listed), f"after {label}: listing {listed}, neighbours are {case['neighbours']}")
            else:
                check(case["dest"] not in listed, f"after {label}: the destination {case['dest']} is listed as a cooler ({listed})")
                check(sorted(listed) == sorted(case["neighbours"]), f"after {label}: listing {listed}, neighbours are {case['neighbours']}")
            with h5py.File(self.file, "r") as f:
                for g in case["neighbours"]:
                    check(self._ndigest(f, g) == self.digests[g], f"after {label}: neighbour collection {g} changed")
            for g in case["neighbours"]:
                clr = cooler.Cooler(self.file + "::" + g)
                df = clr.pixels()[:]
                got = [[a, b, c] for a, b, c in zip(df["bin1_id"].tolist(), df["bin2_id"].tolist(), df["count"].tolist())]
                check(got == [r_[:3] for r_ in case["neighbour_rows"]], f"after {label}: neighbour {g} no longer reads as its model")
        else:
            check(not case["neighbours"], f"after {label}: the file holding the neighbours is gone or unreadable")


def _run_create(setup: Setup, stream, exc_before=None, hard_exit=False, bad_metadata=False):
    """create_cooler (ordered or unordered) on a chunk stream with an optional iterator fault."""
    import cooler

    from ..coolio import pixel_frame

    case = setup.case

    def it():
        for idx, ch in enumerate(stream):
            if exc_before == idx:
                if hard_exit:
                    os._exit(17)
                raise Injected(f"input iterator failed before chunk {idx}")
            yield pixel_frame(ch)
        if exc_before == len(stream):
            if hard_exit:
                os._exit(17)
            raise Injected("input iterator failed after the last chunk")

    mode = "a" if os.path.exists(setup.file) else "w"
    kw = dict(mergebuf=case["mergebuf"], max_merge=2) if case["producer"] == "unordered" else {}
    if bad_metadata:
        # "any other reason", in the very last step: all chunks are valid and written, then the metadata cannot be
        # serialised (a set is not JSON)
        kw["metadata"] = {"samples": {"a", "b"}}
    cooler.create_cooler(setup.dest_uri, gen.bins_df(case["bt"]), it(), ordered=(case["producer"] == "ordered"),
                         symmetric_upper=case["symmetric"], mode=mode, h5opts={"compression": None}, **kw)


def _run_cli_load(setup: Setup, stream):
    """cooler load -f coo on the text form of a chunk stream (read as ONE reader chunk, so that a duplicate stays
    inside a chunk)."""
    from ..cliutil import run_cli

    case = setup.case
    d = setup.dir
    bed = os.path.join(d, "bins.bed")
    with open(bed, "w") as f:
        for c, s_, e in model.bins_rows(case["bt"]):
            f.write(f"{c}\t{s_}\t{e}\n")
    txt = os.path.join(d, "in.coo")
    total = 0
    with open(txt, "w") as f:
        for ch in stream:
            for r in ch:
                f.write(f"{r[0]}\t{r[1]}\t{r[2]}\n")
                total += 1
    args = ["load", "-f", "coo", bed, txt, setup.dest_uri, "--chunksize", str(max(total, 1))]
    if os.path.exists(setup.file):
        args.append("--append")
    if not case["symmetric"]:
        args.append("-N")
    elif case.get("copy_status") == "duplex":
        args += ["--input-copy-status", "duplex"]
    rc, _, exc = run_cli(args)
    if rc != 0 or exc is not None:
        raise RuntimeError(f"cooler load exit {rc}: {exc!r}")


def _run_reduce(setup: Setup, fault=None, observe=None, hard_exit=False):
    """merge_coolers / coarsen_cooler with their chunk iterator wrapped by the harness."""
    import cooler
    import cooler._reduce as red

    case = setup.case
    cls = red.CoolerMerger if case["producer"] == "merge" else red.CoolerCoarsener
    orig = cls.__iter__

    def wrapped(self):
        idx = -1
        for idx, chunk in enumerate(orig(self)):
            if fault and fault[0] == "exc" and fault[1] == idx:
                if hard_exit:
                    os._exit(17)
                raise Injected(f"chunk iterator failed before chunk {idx}")
            if observe is not None:
                observe.append(len(chunk["bin1_id"]))
            if fault and fault[0] == "rec" and fault[1] == idx:
                chunk = {k: np.array(v, copy=True) for k, v in chunk.items()}
                kind, p = fault[2], fault[3]
                n = gen.n_bins(case["bt"]) if case["producer"] == "merge" else len(self.new_bins)
                if kind == "neg":
                    chunk["bin1_id"][p] = -1
                elif kind == "big":
                    chunk["bin2_id"][p] = n
                elif kind == "tril":
                    a, b = chunk["bin1_id"][p], chunk["bin2_id"][p]
                    if a != b:
                        chunk["bin1_id"][p], chunk["bin2_id"][p] = b, a
                    else:
                        chunk["bin1_id"][p] = a + 1
                elif kind == "dup":
                    chunk = {k: np.insert(v, p, v[p]) for k, v in chunk.items()}
                else:
                    far = len(chunk["bin1_id"]) if p < len(chunk["bin1_id"]) - 1 else 0
                    chunk = {k: np.insert(v, far, v[p]) for k, v in chunk.items()}
            yield chunk
        if fault and fault[0] == "exc" and fault[1] == idx + 1:
            if hard_exit:
                os._exit(17)
            raise Injected("chunk iterator failed after the last chunk")

    cls.__iter__ = wrapped
    try:
        mode = "a" if os.path.exists(setup.file) else "w"
        if case["producer"] == "merge":
            cooler.merge_coolers(setup.dest_uri, setup.inputs, case["mergebuf"], mode=mode, h5opts={"compression": None})
        else:
            cooler.coarsen_cooler(setup.inputs[0], setup.dest_uri, case["k"], case["chunksize"], mode=mode, h5opts={"compression": None})
    finally:
        cls.__iter__ = orig


def _in_child(fn) -> int:
    """Run fn in a forked child; returns its exit status."""
    pid = os.fork()
    if pid == 0:
        try:
            fn()
            os._exit(0)
        except BaseException:  # noqa: BLE001
            os._exit(3)
    _, status = os.waitpid(pid, 0)
    return os.waitstatus_to_exitcode(status)


def check_faults(case, ctx: Ctx):
    import cooler

    setup = Setup(ctx, case)
    n = gen.n_bins(case["bt"])
    hard = ctx.tier == "thorough" or case.get("hard")
    n_eval = n_nt = 0
    cls: dict[str, int] = {}
    try:
        # sanity: the unperturbed producer succeeds and yields a cooler (otherwise the faults prove nothing)
        setup.restore()
        observed: list[int] = []
        if case["producer"] == "cli-load":
            call("producer without fault", _run_cli_load, setup, case["chunks"])
            chunk_sizes = [len(c) for c in case["chunks"]]
        elif case["producer"] in ("ordered", "unordered"):
            call("producer without fault", _run_create, setup, case["chunks"])
            chunk_sizes = [len(c) for c in case["chunks"]]
        else:
            call("producer without fault", _run_reduce, setup, None, observed)
            chunk_sizes = observed
        check(cooler.fileops.is_cooler(setup.dest_uri), "the producer without a fault did not create a cooler")

        def one(label, k, runner):
            nonlocal n_eval, n_nt
            setup.restore()
            try:
                runner()
            except Exception:  # noqa: BLE001 - any exception is the required refusal
                pass
            else:
                raise Violation(f"{case['producer']} with fault {label} completed without an error")
            setup.verify_after_failure(f"{case['producer']} fault {label} (dest {case['destkind']}:{case['dest']})")
            n_eval += 1
            kind = label.split("@")[0]
            cls[kind] = cls.get(kind, 0) + 1
            if k >= 1 and case["neighbours"]:
                n_nt += 1

        m = len(chunk_sizes)
        if case["producer"] == "cli-load":
            for label, k, stream in _faulty_chunks(case["chunks"], n, case["symmetric"]):
                kind = label.split("@")[0]
                if kind == "tril":
                    continue          # the text loader mirrors / drops lower-triangle records by design
                if kind in ("neg", "big") and case["symmetric"] and case.get("copy_status") == "duplex":
                    continue          # may legitimately be discarded as a lower-triangle record (see C05)
                one(label, k, lambda s_=stream: _run_cli_load(setup, s_))
        elif case["producer"] in ("ordered", "unordered"):
            for label, k, stream in _faulty_chunks(case["chunks"], n, case["symmetric"]):
                one(label, k, lambda s=stream: _run_create(setup, s))
            for k in range(m + 1):
                one(f"iter-exc@chunk{k}", k, lambda k=k: _run_create(setup, case["chunks"], exc_before=k))
            one("final-step@after-all-chunks", m, lambda: _run_create(setup, case["chunks"], bad_metadata=True))
        else:
            for k, size in enumerate(chunk_sizes):
                for p in range(size):
                    for kind in ("neg", "big", "tril", "dup", "dupfar"):
                        if kind == "tril" and not case["symmetric"]:
                            continue
                        if kind == "dupfar" and size < 2:
                            continue
                        one(f"{kind}@chunk{k}[{p}]", k, lambda k=k, p=p, kind=kind: _run_reduce(setup, ("rec", k, kind, p)))
            for k in range(m + 1):
                one(f"iter-exc@chunk{k}", k, lambda k=k: _run_reduce(setup, ("exc", k)))
        if hard and case["producer"] != "cli-load":
            for k in range(m + 1):
                setup.restore()
                if case["producer"] in ("ordered", "unordered"):
                    rc = _in_child(lambda k=k: _run_create(setup, case["chunks"], exc_before=k, hard_exit=True))
                else:
                    rc = _in_child(lambda k=k: _run_reduce(setup, ("exc", k), hard_exit=True))
                check(rc == 17, f"child with a hard exit before chunk {k} ended with status {rc}")
                setup.verify_after_failure(f"{case['producer']} hard exit before chunk {k} (dest {case['destkind']}:{case['dest']})")
                n_eval += 1
                cls["hard-exit"] = cls.get("hard-exit", 0) + 1
                if k >= 1 and case["neighbours"]:
                    n_nt += 1
    finally:
        setup.close()
    for k_, v in cls.items():
        ctx.classes["fault-" + k_] += v
    ctx.record(case, n_nt > 0, ["faults", "producer=" + case["producer"], "dest=" + case["destkind"], "dest-is-root-beside-neighbours" if case["dest"] == "/" and case["neighbours"] else "dest-other",
                                f"neighbours={len(case['neighbours'])}", f"chunks={len(case['chunks'])}"],
               n_eval=n_eval, n_nontrivial=n_nt)


@st.composite
def wide_cases(draw):
    return {"part": "wide", "nbins": draw(st.integers(513, 540)), "form": draw(st.sampled_from(["frame", "dict", "one-chunk-iterable"])),
            "symmetric": draw(st.booleans()), "extra_ranks": sorted(draw(st.lists(st.integers(0, 131000), min_size=2, max_size=4, unique=True)))}


def check_wide(case, ctx: Ctx):
    """One LARGE table (> 2**17 rows) given as a single chunk: a pixel duplicated anywhere in it - in particular with its two
    copies on either side of a power-of-two or power-of-ten row number, where an implementation that cuts big tables into
    internal blocks would separate them - is rejected, and nothing is recognised at the destination."""
    import pandas as pd

    import cooler
    from cooler.fileops import is_cooler

    n = case["nbins"]
    sym = case["symmetric"]
    if sym:
        i, j = np.triu_indices(n)
    else:
        m = 2 ** 17 + 500
        i, j = np.divmod(np.arange(m, dtype=np.int64), n)
    total = len(i)
    bins = pd.DataFrame({"chrom": ["c1"] * n, "start": np.arange(n) * 10, "end": np.arange(1, n + 1) * 10})
    ranks = sorted({2 ** k - 1 for k in range(10, 18)} | {10 ** k - 1 for k in range(3, 6)} | {2 ** 16 + 2 ** 15 - 1, 0, total - 1} | set(case["extra_ranks"]))
    ranks = [r for r in ranks if r < total]
    path = ctx.tmp(".cool")
    n_eval = 0
    try:
        for r in ranks:
            b1 = np.insert(i, r, i[r]).astype(np.int64)
            b2 = np.insert(j, r, j[r]).astype(np.int64)
            cnt = np.ones(total + 1, dtype=np.int32)
            data = {"bin1_id": b1, "bin2_id": b2, "count": cnt}
            px = pd.DataFrame(data) if case["form"] == "frame" else data if case["form"] == "dict" else iter([pd.DataFrame(data)])
            ctx.clean(path)
            must_raise(f"create_cooler({case['form']} of {total + 1} rows; rows {r} and {r + 1} are the same pixel)",
                       lambda px=px: cooler.create_cooler(path, bins, px, ordered=True, symmetric_upper=sym, h5opts={"compression": None}))
            r_ = call("is_cooler(dest)", is_cooler, path) if os.path.exists(path) else False
            check(r_ is False, f"after the refused creation (duplicate at rows {r},{r + 1}) the destination is recognised as a cooler")
            n_eval += 1
    finally:
        ctx.clean(path)
    ctx.record(case, True, ["wide", "wide-form=" + case["form"], "wide-sym" if sym else "wide-square"], n_eval=n_eval, n_nontrivial=n_eval)


CHECKS = {"faults": check_faults, "wide": check_wide}


def replay(ctx: Ctx, case):
    CHECKS[case["part"]](case, ctx)


def run(ctx: Ctx):
    q = ctx.tier == "quick"
    parts = []
    parts.append(given_part(ctx, "wide", wide_cases(), check_wide, 2 if q else 8, batch=2))
    parts.append(given_part(ctx, "faults", cases(), check_faults, per_shard(ctx, 260 if q else 4800), batch=10))
    ctx.exhaustive_subdomains["complete fault space (kind x chunk x position, iterator failure before every chunk) per generated stream"] = 1
    run_parts(ctx, parts)
