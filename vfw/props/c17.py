"""C17 - every cell of a single-cell file reads back as the matrix given for it."""
from __future__ import annotations

import numpy as np
from hypothesis import strategies as st

from .. import gen, model, schema
from ..core import Ctx, Violation, call, check, per_shard, run_given

PID = "C17"
LEVEL = "exploration"
SHARDS = {"quick": 8, "thorough": 16}
BUDGET = {"quick": 70, "thorough": 780}
RULE = (
    "Case = common bin table (every layout kind, +/- extra columns) x 1..5 cells with distinct ASCII names without "
    "'/' (incl. names that sort differently lexically and naturally) x per-cell matrices (different, incl. empty) "
    "x bins as one frame or a per-cell dict with a per-cell extra column x pixel input as frame / dict / sorted "
    "chunk iterable x storage mode x value columns. Oracle: the per-cell model tables; the independent schema "
    "validator per cell; HDF5 object addresses for the shared bin columns. Non-trivial = >=2 cells with different "
    "non-empty content. Distinct by sha1 of the canonical case."
    " Also: a bin column stored in ONE cell after creation must not appear in other cells or at file level; cell keys spelled '/cells/<name>' (names starting with letters of 'cells/'); arguments equal to defaults left out; the file addressed through a symbolic link to its directory; the cells written by two calls (the second in append mode); names with a leading or trailing blank beside the same name without it; per-cell tables out of order (inside rows only, or completely) with ensure_sorted=True."
)
ASSUMPTIONS = ["per-cell pixel tables are sorted by (bin1_id, bin2_id) as create_scool documents"]

CELL_NAMES = st.one_of(
    st.sampled_from(["cell1", "cell2", "cell10", "cell_a", "A", "b", "GSM123.1", "c-1", "10", "9", "x y", "sample_A", "esc_1", "l1", "s", "cells", "ce",
                     "rep1", "rep1 ", " rep1", "rep 1", "a ", "a"]),
    st.text("abcdefghijklmnopqrstuvwxyzABCDEFGHIJKLMNOPQRSTUVWXYZ0123456789_.-", min_size=1, max_size=10),
).filter(lambda s: s not in (".", ".."))


@st.composite
def cases(draw):
    bt = draw(gen.bin_tables(max_chroms=3, max_bins=5))
    n = gen.n_bins(bt)
    symmetric = draw(st.booleans())
    names = draw(st.lists(CELL_NAMES, min_size=1, max_size=5, unique=True))
    cells = {nm: draw(gen.pixels(n, symmetric, count=st.integers(1, 99), extra_cols=[gen.DYADIC], max_nnz=25)) for nm in names}
    return {"part": "scool", "bt": bt, "symmetric": symmetric, "cells": cells,
            "bins_form": draw(st.sampled_from(["frame", "frame-extra", "dict"])),
            "px_form": draw(st.sampled_from(["frame", "dict", "chunks"])),
            "cols": draw(st.sampled_from([None, ["count", "x"]])),
            "cuts": draw(st.lists(st.integers(0, 25), max_size=3).map(sorted)),
            "dict_order": draw(st.permutations(names)), "metadata": draw(st.sampled_from([None, {"lab": "x", "n": 3}])),
            # history: the path first holds an ordinary cooler (and is asked about) before the single-cell file replaces it
            "prior": draw(st.sampled_from([None, None, "cooler", "scool"])),
            "count_dtype": draw(st.sampled_from([None, None, "float64", "int64"])),
            "key_form": draw(st.sampled_from(["plain", "plain", "listing"])),
            # per-cell tables out of order (only inside rows, or completely) together with ensure_sorted=True
            # the file is addressed through a symbolic link to its directory
            "symlinked": draw(st.integers(0, 4)) == 0,
            # history: the cells are written in two calls, the second one in append mode
            "two_batches": draw(st.integers(0, 4)) == 0,
            "unsorted": draw(st.sampled_from([None, None, "rows", "full"])), "unsorted_seed": draw(st.integers(0, 2**16))}


def _natkey(s):
    """Natural order: digit runs compare as integers (independent re-implementation)."""
    import re

    return [(0, int(t), "") if t.isdigit() else (1, 0, t) for t in re.split(r"(\d+)", s) if t]


def check_scool(case, ctx: Ctx):
    import h5py

    import cooler
    from cooler.fileops import is_scool_file, list_coolers, list_scool_cells

    from ..coolio import pixel_frame

    bt, symmetric, cells = case["bt"], case["symmetric"], case["cells"]
    n = gen.n_bins(bt)
    cols = case["cols"] or ["count"]
    base_extra = {"gc": np.arange(n, dtype=float) / 8} if case["bins_form"] == "frame-extra" else None
    bins = gen.bins_df(bt, extra=base_extra)
    per_cell_extra = {}
    if case["bins_form"] == "dict":
        bins_arg = {}
        for t, nm in enumerate(case["dict_order"]):
            per_cell_extra[nm] = np.arange(n, dtype=float) * (t + 1) + 0.5
            bins_arg[nm] = gen.bins_df(bt, extra={"weight": per_cell_extra[nm]})
    else:
        bins_arg = bins

    def px(rows):
        if case.get("count_dtype"):
            bump = 0.5 if case["count_dtype"] == "float64" else 2**33
            rows = [[r[0], r[1], r[2] + bump, *r[3:]] for r in rows]
        if case.get("unsorted"):
            rng = np.random.RandomState(case["unsorted_seed"] + len(rows))
            if case["unsorted"] == "full":
                rows = [rows[t] for t in rng.permutation(len(rows)).tolist()]
            else:
                keys = rng.rand(len(rows)).tolist()
                rows = [r for _, r in sorted(zip([(r[0], k) for r, k in zip(rows, keys)], rows), key=lambda t: t[0])]
        df = pixel_frame(rows, ["count", "x"])
        if case.get("unsorted") and case["px_form"] == "chunks":
            return iter([df])          # one chunk: sorting is per chunk, the chunk sequence itself must stay in order
        if case["px_form"] == "frame":
            # (create_scool documents its pixel tables as sorted by (bin1_id, bin2_id) whatever `ordered` says - it never
            # sorts: unsorted tables are outside its input domain, see DESIGN 9.3)
            return df
        if case["px_form"] == "dict":
            return {k: df[k].to_numpy() for k in df.columns}
        return iter([pixel_frame(c, ["count", "x"]) for c in gen.split_at(rows, [min(c, len(rows)) for c in case["cuts"]])])

    # keys may be spelled the way list_scool_cells() returns them ("/cells/<name>"): the cell is stored under <name>
    kf = (lambda nm: "/cells/" + nm) if case.get("key_form") == "listing" else (lambda nm: nm)
    pixels_arg = {kf(nm): px(cells[nm]) for nm in case["dict_order"]}
    if case.get("key_form") == "listing" and isinstance(bins_arg, dict):
        bins_arg = {kf(nm): v for nm, v in bins_arg.items()}
    path = ctx.tmp(".scool")
    linkdir = None
    if case.get("symlinked") and not case.get("prior"):
        import os

        linkdir = ctx.tmpdir()
        os.makedirs(os.path.join(linkdir, "real"))
        os.symlink(os.path.join(linkdir, "real"), os.path.join(linkdir, "via_link"))
        path = os.path.join(linkdir, "via_link", "cells.scool")
    kw = {}
    cdt = case.get("count_dtype")
    if cdt:
        # values that do not survive the default int32: fractional (float64) or beyond 2^31 (int64)
        bump = 0.5 if cdt == "float64" else 2**33
        cells = {nm: [[r[0], r[1], r[2] + bump, *r[3:]] for r in rows] for nm, rows in cells.items()}
        kw["dtypes"] = {"count": np.dtype(cdt)}
    if case.get("prior"):
        from ..coolio import create_from_model

        if case["prior"] == "cooler":
            call("create plain cooler first", create_from_model, path, bt, [], True)
            check(call("is_scool_file(plain cooler)", is_scool_file, path) is False, "an ordinary cooler file is recognised as single-cell")
        else:
            call("create other scool first", cooler.create_scool, path, bins, {"old_cell": pixel_frame([], ["count", "x"])}, ordered=True)
            check(call("list_scool_cells(old)", list_scool_cells, path) == ["/cells/old_cell"], "listing of the earlier single-cell file")
    if case["cols"]:
        kw["columns"] = list(case["cols"])
    if case["metadata"]:
        kw["metadata"] = case["metadata"]
    if case.get("unsorted"):
        kw["ensure_sorted"] = True
    try:
        # arguments equal to the documented defaults are left out in half of the cases (the pixel frames are sorted, so
        # the default ordered=False - sort-and-merge - must store the same thing)
        okw = {"ordered": True, "symmetric_upper": symmetric}
        if len(cells) % 2 == 0:
            okw.pop("ordered")
            if symmetric:
                okw.pop("symmetric_upper")
        two = bool(case.get("two_batches")) and len(pixels_arg) >= 2 and not case.get("prior")
        if two:
            keys_ = list(pixels_arg)
            first_keys = keys_[: len(keys_) // 2]
            b1 = {k_: pixels_arg[k_] for k_ in first_keys}
            b2 = {k_: pixels_arg[k_] for k_ in keys_ if k_ not in b1}
            ba1 = {k_: bins_arg[k_] for k_ in b1} if isinstance(bins_arg, dict) else bins_arg
            ba2 = {k_: bins_arg[k_] for k_ in b2} if isinstance(bins_arg, dict) else bins_arg
            call("create_scool (first batch)", cooler.create_scool, path, ba1, b1, h5opts={"compression": None}, **okw, **kw)
            call("create_scool (second batch, mode='a')", cooler.create_scool, path, ba2, b2, h5opts={"compression": None}, mode="a", **okw, **kw)
        else:
            call("create_scool", cooler.create_scool, path, bins_arg, pixels_arg, h5opts={"compression": None}, **okw, **kw)
        check(call("is_scool_file", is_scool_file, path), "file is not recognised as a single-cell file")
        listing = call("list_scool_cells", list_scool_cells, path)
        check(sorted(listing) == sorted("/cells/" + nm for nm in cells),
              lambda: f"cell listing {listing} does not name exactly the cells given {sorted('/cells/' + nm for nm in cells)}")
        # documented order: natural; names with equal natural keys ('9' and '09') may come either way round
        keys_ = [_natkey(x) for x in listing]
        check(keys_ == sorted(keys_), lambda: f"cell listing {listing} is not in natural order")
        check(sorted(list_coolers(path)) == sorted(listing), "list_coolers and list_scool_cells disagree")
        idx = {"count": 2, "x": 3}
        with h5py.File(path, "r") as f:
            # (after a second call in append mode the ncells attribute describes that call only: not judged then)
            check((two or int(f.attrs["ncells"]) == len(cells)) and int(f.attrs["nbins"]) == n and int(f.attrs["nchroms"]) == len(bt["names"]),
                  f"root attributes ncells/nbins/nchroms = {f.attrs.get('ncells')}/{f.attrs.get('nbins')}/{f.attrs.get('nchroms')}")
            root_addr = {k: h5py.h5o.get_info(f["bins"][k].id).addr for k in ("chrom", "start", "end")}
            for nm in cells:
                g = f["cells"][nm]
                probs = schema.validate(g)
                check(not probs, lambda: f"cell {nm!r} violates the schema: {probs[:3]}")
                for k in ("chrom", "start", "end"):
                    if two:
                        break       # (a second call in append mode rewrites the file-level table: sharing across calls is not judged)
                    check(h5py.h5o.get_info(g["bins"][k].id).addr == root_addr[k],
                          f"cell {nm!r}: bins/{k} is not the shared root object (bin table stored more than once)")
        for nm, rows in cells.items():
            clr = call(f"Cooler(cell {nm!r})", cooler.Cooler, f"{path}::/cells/{nm}")
            df = clr.pixels()[:]
            check(list(df.columns) == ["bin1_id", "bin2_id", *cols], f"cell {nm!r} columns {list(df.columns)}")
            got = [[a, b, *[df[c].tolist()[t] for c in cols]] for t, (a, b) in enumerate(zip(df["bin1_id"].tolist(), df["bin2_id"].tolist()))]
            want = [[r[0], r[1], *[r[idx[c]] for c in cols]] for r in rows]
            check(got == want, lambda: f"cell {nm!r} reads back as {got[:5]}, supplied {want[:5]}")
            if case.get("count_dtype"):
                check(str(df["count"].dtype) == case["count_dtype"], f"cell {nm!r}: count stored as {df['count'].dtype}, requested {case['count_dtype']}")
            A = clr.matrix(balance=False)[:]
            check(np.array_equal(A, model.dense(rows, n, symmetric, 0)), f"cell {nm!r}: full matrix differs")
            check(model.read_bins(clr) == model.bins_rows(bt), f"cell {nm!r}: bin table differs from the common table")
            b = clr.bins()[:]
            if case["bins_form"] == "dict":
                check("weight" in b.columns and np.array_equal(b["weight"].to_numpy(), per_cell_extra[nm]),
                      f"cell {nm!r}: per-cell extra bin column differs or is another cell's")
            elif case["bins_form"] == "frame-extra":
                check("gc" in b.columns and np.array_equal(b["gc"].to_numpy(), base_extra["gc"]), f"cell {nm!r}: extra bin column lost")
            if case["metadata"]:
                check(clr.info["metadata"] == case["metadata"], "cell metadata differs")
            else:
                check(clr.info["metadata"] == {}, lambda: f"cell {nm!r} created without metadata reports {clr.info['metadata']!r}")
        # history: a bin column is stored in ONE cell afterwards (what balancing a cell does); per-cell columns stay per cell
        if len(cells) >= 2:
            first = sorted(cells)[0]
            c0 = cooler.Cooler(f"{path}::/cells/{first}")
            before = {nm: list(cooler.Cooler(f"{path}::/cells/{nm}").bins()[:].columns) for nm in cells}

            def store():
                with c0.open("r+") as grp:
                    grp["bins"].create_dataset("late", data=np.arange(n, dtype=float))

            call(f"store a bin column in cell {first!r}", store)
            for nm in cells:
                colsnow = list(cooler.Cooler(f"{path}::/cells/{nm}").bins()[:].columns)
                want_cols = before[nm] + (["late"] if nm == first else [])
                check(sorted(colsnow) == sorted(want_cols),
                      lambda: f"after storing a bin column in cell {first!r} only, cell {nm!r} has bin columns {colsnow}, expected {want_cols}")
            with h5py.File(path, "r") as f:
                check("late" not in f["bins"], f"a bin column stored in cell {first!r} appeared in the file-level bin table")
    finally:
        ctx.clean(path)
        if linkdir:
            ctx.clean(linkdir)
    distinct = {str(v) for v in cells.values() if v}
    ctx.record(case, len(distinct) >= 2, ["scool", f"cells={len(cells)}", "bins=" + case["bins_form"], "px=" + case["px_form"],
                                          "has-empty-cell" if any(not v for v in cells.values()) else "no-empty-cell",
                                          "natsort-differs" if sorted(cells) != sorted(cells, key=_natkey) else "natsort-same",
                                          "prior=" + str(case.get("prior")), "count=" + str(case.get("count_dtype")),
                                          "unsorted=" + str(case.get("unsorted")), "via-symlink" if linkdir else "plain-path", "two-batches" if case.get("two_batches") and len(cells) >= 2 and not case.get("prior") else "one-call", "blank-edged-name" if any(nm != nm.strip() for nm in cells) else "plain-names"])


CHECKS = {"scool": check_scool}


def replay(ctx: Ctx, case):
    CHECKS[case["part"]](case, ctx)


def run(ctx: Ctx):
    q = ctx.tier == "quick"
    run_given(ctx, "scool", cases(), check_scool, per_shard(ctx, 900 if q else 48000), batch=50)
