"""C01 - create-then-read round trip returns exactly the matrix that was stored."""
from __future__ import annotations

import json

import numpy as np
from hypothesis import strategies as st

from .. import gen, model
from ..core import Ctx, Violation, call, check, per_shard, run_given, given_part, machine_part, run_parts

PID = "C01"
LEVEL = "exploration"
SHARDS = {"quick": 8, "thorough": 16}
BUDGET = {"quick": 70, "thorough": 780}
RULE = (
    "Case = bin table (all layout kinds, object/categorical chrom column, optional extra bin columns) x sparse "
    "matrix pattern x storage mode x input form (frame, shuffled frame, dict, ordered chunk iterable of frames "
    "or dicts with arbitrary cuts incl. empty chunks, chunks that are internally unsorted - completely or only inside rows - with ensure_sorted=True, ArrayLoader) x value column set and dtypes x junk column "
    "x HDF5 filter options x destination URI spelling x JSON metadata x assembly. Oracle: the same lists held "
    "by the reference model (dense numpy completion). Non-trivial = nnz>=2 and at least one of: >=2 non-empty "
    "chunks, a diagonal and an off-diagonal pixel, a non-fixed layout, an extra value column, a non-default "
    "dtype or filter. Distinct by sha1 of the canonical case."
    ' Also: input frames whose row labels are not a fresh RangeIndex (reversed, permuted, gappy, strings); optional input checks switched off in any combination on valid input; arguments equal to documented defaults left out; a CLI part in which metadata (JSON file incl. exponent-form floats) and assembly are given through `cooler load` / `cooler cload pairs --metadata --assembly`; bin id columns of the input in any integer type that holds them (int16..uint64), also on tall tables (more than 185 bins, few pixels); one table grouped by bin1_id with bin2_id in arbitrary order inside the groups; histories in which the same URI first holds, and is read as, a twin collection (same bin table and pixel count, pixels on other rows).'
)
ASSUMPTIONS = [
    "pixel input is sorted by (bin1_id, bin2_id) and upper-triangular in symmetric mode, as create_cooler documents for ordered input",
    "metadata is a JSON object without NaN/Infinity, <= ~2 kB; values fit the requested dtypes",
]

VALUE_KINDS = {
    "int32": gen.COUNT_VALUES, "int64": gen.COUNT_VALUES,
    "float64": gen.DYADIC64, "float32": gen.DYADIC, "int16": gen.SMALL_INT,
}
ASSEMBLY = st.one_of(
    st.none(),
    st.sampled_from(["hg19", "mm10", "GRCh38.p13", "dm6", "T2T-CHM13v2.0", "unknown"]),
    st.text("abcdefghijklmnopqrstuvwxyzABCDEFGHIJKLMNOPQRSTUVWXYZ0123456789._-", min_size=1, max_size=12),
    st.text("abcdefghijklmnopqrstuvwxyzABCDEFGHIJKLMNOPQRSTUVWXYZ._-", min_size=1, max_size=12),
    st.sampled_from(["hg38", "mm9", "ce11", "sacCer3", "123", "true", "null", "1.5", "1e5", "0", "-7"]),
)


def _is_json_literal(s):
    try:
        json.loads(s)
        return True
    except ValueError:
        return False


@st.composite
def cases(draw, max_chroms=4, max_bins=6, max_nnz=None, min_total_bins=0):
    bt = draw(gen.bin_tables(max_chroms=max_chroms, max_bins=max_bins, allow_space=True))
    if min_total_bins:
        # tall tables: one more chromosome of fixed width brings the bin count beyond the given bound
        extra_bins = min_total_bins + draw(st.integers(0, 60))
        bt = {"names": [*bt["names"], "tall_one"], "edges": [*bt["edges"], [5 * k for k in range(extra_bins + 1)]],
              "kinds": [*bt["kinds"], "variable"], "b": bt.get("b")}
    n = gen.n_bins(bt)
    symmetric = draw(st.booleans())
    colset = draw(st.sampled_from([["count"], ["count"], ["count", "x"], ["count", "x", "y"], ["x"]]))
    count_dt = draw(st.sampled_from(["int32", "int32", "int64", "float64"]))
    x_dt = draw(st.sampled_from(["float64", "float64", "float32", "int16"]))
    y_dt = draw(st.sampled_from(["float64", "int16"]))
    explicit = draw(st.booleans())
    if min_total_bins:
        # tall tables exist for the narrow id types: forms that make the library sort, and ids in 16/32-bit types
        form = draw(st.sampled_from(["chunks-ensure-sorted", "chunks-ensure-sorted", "frame-shuffled", "frame-rows-shuffled", "chunks-default", "dict"]))
    else:
        form = draw(st.sampled_from(["frame", "frame-shuffled", "dict", "chunks-frame", "chunks-dict",
                                     "chunks-frame", "arrayloader", "chunks-ensure-sorted", "dask", "chunks-default", "frame-rows-shuffled"]))
    if form == "arrayloader":
        symmetric, colset, count_dt = True, ["count"], draw(st.sampled_from(["int32", "int64"]))
        rows = draw(gen.pixels(n, True, count=st.integers(1, 1000), max_nnz=max_nnz))
        rows = [[r[0], r[1], r[2], 0, 0] for r in rows]
    elif min_total_bins:
        # few pixels SPREAD over the whole (tall) matrix, high bin ids included
        pairs = draw(st.lists(st.tuples(st.integers(0, n - 1), st.integers(0, n - 1)), min_size=2, max_size=max_nnz or 40,
                              unique_by=lambda t: (min(t), max(t)) if symmetric else t))
        coords = sorted({((min(a, b), max(a, b)) if symmetric else (a, b)) for a, b in pairs} | {(n - 2, n - 1)})
        cval = gen.DYADIC64 if count_dt == "float64" else gen.COUNT_VALUES
        rows = [[i, j, draw(cval), draw(VALUE_KINDS[x_dt]), draw(VALUE_KINDS[y_dt])] for i, j in coords]
    else:
        rows = draw(gen.pixels(
            n, symmetric,
            extra_cols=[VALUE_KINDS[x_dt], VALUE_KINDS[y_dt]],
            count=gen.DYADIC64 if count_dt == "float64" else gen.COUNT_VALUES, max_nnz=max_nnz))
    dtypes = {}
    if explicit or count_dt != "int32":
        dtypes["count"] = count_dt
    if "x" in colset and (explicit or x_dt != "float64"):
        dtypes["x"] = x_dt
    if "y" in colset and (explicit or y_dt != "float64"):
        dtypes["y"] = y_dt
    eff = {"count": count_dt, "x": x_dt, "y": y_dt}
    case = {
        "part": "roundtrip", "bt": bt, "symmetric": symmetric, "rows": rows, "cols": colset,
        "dtypes": dtypes, "eff": {c: eff[c] for c in colset}, "form": form,
        "cuts": draw(gen.cuts(len(rows), 8)) if form.startswith("chunks") or form == "dask" else [],
        "chunksize": draw(st.integers(1, n + 1)) if form == "arrayloader" else None,
        "perm_seed": draw(st.integers(0, 2**16)) if form in ("frame-shuffled", "chunks-ensure-sorted", "frame-rows-shuffled") else None,
        # dtype of the bin id columns of the input (ids are small non-negative integers: any integer type that holds them is valid)
        "id_dtype": draw(st.sampled_from(["int16", "int16", "uint16", "int32", "uint32"] if min_total_bins else ["int64", "int64", "int32", "int16", "uint16", "uint32", "uint64"])),
        "shuffle": draw(st.sampled_from(["within-rows", "full"])) if form == "chunks-ensure-sorted" else None,
        "junk": draw(st.booleans()),
        # row labels of the input frame(s): a fresh RangeIndex, or what earlier pandas operations leave behind
        # (reversed / permuted / gappy integer labels, strings) - labels carry no meaning for create_cooler
        "index_kind": draw(st.sampled_from(["range", "range", "reversed", "permuted", "gappy", "strings"])),
        # optional input checks switched off: valid input is stored identically with or without them
        "checks_off": draw(st.sampled_from([[], [], [], ["boundscheck", "triucheck", "dupcheck"], ["dupcheck"], ["boundscheck", "dupcheck"], ["triucheck"]])),
        "h5opts": draw(gen.H5OPTS),
        "dest": draw(st.sampled_from(["", "", "::/", "::/g", "::g/h", "::/resolutions/100"])),
        "metadata": draw(gen.metadata_docs()),
        "assembly": draw(ASSEMBLY),
        "categorical": draw(st.sampled_from([False, True, "lexical"])),
        "bins_extra": draw(st.sampled_from([None, None, "gc", "gc+mask"])),
        # history: the same URI first holds (and is read as) a TWIN - same bin table, same number of pixels, other rows
        "prior": draw(st.sampled_from([None, None, "twin"])),
        # form chunks-default: `ordered` is left to its default (sort-and-merge in two steps) with a small fan-in / buffer
        "max_merge": draw(st.sampled_from([2, 3, 4, 200])), "mergebuf": draw(st.sampled_from([1, 3, 10, 10**6])),
    }
    return case


def _bins_extra(kind, n):
    if kind is None:
        return None
    out = {"gc": np.array([((7 * k) % 16) / 16.0 if k % 5 else np.nan for k in range(n)], dtype="float64")}
    if kind == "gc+mask":
        out["mask"] = np.array([k % 3 for k in range(n)], dtype="int8")
    return out


def _h5opts(o):
    if o is None:
        return None
    o = dict(o)
    if "chunks" in o:
        o["chunks"] = tuple(o["chunks"])
    return o


def build_input(case):
    """The object handed to create_cooler as ``pixels`` (and the expected stored rows)."""
    import pandas as pd

    import cooler

    from ..coolio import pixel_frame

    rows = case["rows"]
    allcols = ["count", "x", "y"]
    in_dtypes = {c: ("float64" if case["eff"].get(c, "int64").startswith("float") else "int64")
                 for c in allcols}
    in_dtypes["count"] = "float64" if case["eff"].get("count") == "float64" else "int64"
    for c in ("x", "y"):
        in_dtypes[c] = "float64" if case["eff"].get(c, "float64").startswith("float") else "int64"
    form = case["form"]
    n = gen.n_bins(case["bt"])

    def frame(rs):
        df = pixel_frame(rs, allcols, in_dtypes)
        if case["junk"]:
            df["junk"] = np.arange(len(df)) * 3 + 1
        if case.get("id_dtype", "int64") != "int64":
            df["bin1_id"] = df["bin1_id"].astype(case["id_dtype"])
            df["bin2_id"] = df["bin2_id"].astype(case["id_dtype"])
        ik = case.get("index_kind", "range")
        m_ = len(df)
        if ik == "reversed":
            df.index = np.arange(m_)[::-1]
        elif ik == "permuted":
            df.index = np.random.RandomState(m_ + 17).permutation(m_)
        elif ik == "gappy":
            df.index = np.arange(m_) * 10 + 5
        elif ik == "strings":
            df.index = [f"r{t}" for t in range(m_)]
        return df

    if form == "arrayloader":
        A = model.dense(rows, n, True, 0, dtype="int64")
        bins = gen.bins_df(case["bt"])
        return cooler.create.ArrayLoader(bins, A, case["chunksize"])
    if form == "dask":
        import dask.dataframe as dd

        # sorted partitions of a dask frame are consumed one at a time by create()
        return dd.from_pandas(frame(rows), npartitions=max(1, len(case["cuts"]) + 1), sort=False)
    if form == "frame":
        return frame(rows)
    if form == "frame-shuffled":
        df = frame(rows)
        rng = np.random.RandomState(case["perm_seed"])
        df = df.iloc[rng.permutation(len(df))]
        return df if case.get("index_kind", "range") != "range" else df.reset_index(drop=True)
    if form == "frame-rows-shuffled":
        # one table whose rows are grouped by bin1_id in increasing order, with bin2_id in arbitrary order inside each group
        rng = np.random.RandomState(case["perm_seed"])
        keys = rng.rand(len(rows)).tolist()
        rs = [r for _, r in sorted(zip([(r[0], k) for r, k in zip(rows, keys)], rows), key=lambda t: t[0])]
        df = frame(rs)
        return df if case.get("index_kind", "range") != "range" else df.reset_index(drop=True)
    if form == "dict":
        df = frame(rows)
        return {k: df[k].to_numpy() for k in df.columns}
    chunks = gen.split_at(rows, case["cuts"])
    if form == "chunks-ensure-sorted":
        # every chunk holds a contiguous slice of the sorted stream, but internally out of order:
        # completely shuffled, or bin1_id non-decreasing with bin2_id permuted inside each row
        rng = np.random.RandomState(case["perm_seed"])
        out = []
        for c in chunks:
            if case["shuffle"] == "full":
                c = [c[t] for t in rng.permutation(len(c)).tolist()]
            else:
                keys = rng.rand(len(c)).tolist()
                c = [r for _, r in sorted(zip([(r[0], k) for r, k in zip(c, keys)], c), key=lambda t: t[0])]
            out.append(frame(c))
        return iter(out)
    if form in ("chunks-frame", "chunks-default"):
        return iter([frame(c) for c in chunks])
    return iter([{k: v.to_numpy() for k, v in frame(c).items()} for c in chunks])


def check_roundtrip(case, ctx: Ctx):
    import pandas as pd

    import cooler

    bt, rows, cols, symmetric = case["bt"], case["rows"], case["cols"], case["symmetric"]
    n = gen.n_bins(bt)
    path = ctx.tmp(".cool")
    uri = path + case["dest"]
    bins = gen.bins_df(bt, categorical=bool(case["categorical"]), extra=_bins_extra(case["bins_extra"], n))
    if case["categorical"] == "lexical":
        # e.g. bins["chrom"].astype("category"): the categories are sorted lexically, not in order of appearance;
        # the chromosome order of a cooler is the order of appearance in the bin table
        bins["chrom"] = bins["chrom"].astype(object).astype("category")
    px = build_input(case)
    kw = {}
    if cols != ["count"]:
        kw["columns"] = list(cols)
    if case["dtypes"]:
        kw["dtypes"] = {k: np.dtype(v) for k, v in case["dtypes"].items()}
    if case["metadata"] is not None:
        kw["metadata"] = case["metadata"]
    if case["assembly"] is not None:
        kw["assembly"] = case["assembly"]
    try:
        if case["form"] == "chunks-ensure-sorted":
            kw["ensure_sorted"] = True
        for flag in case.get("checks_off", []):
            if flag != "triucheck" or symmetric:
                kw[flag] = False
        if case["form"] == "arrayloader" and case["junk"]:
            # the same loader object feeds an earlier creation first (binners are re-iterable objects)
            first = ctx.tmp(".cool")
            try:
                call("create_cooler (first use of the loader)", cooler.create_cooler, first, bins, px, ordered=True, symmetric_upper=symmetric)
                check(cooler.Cooler(first).info["nnz"] == len(rows), "first creation from the loader lost pixels")
            finally:
                ctx.clean(first)
        if case.get("prior") == "twin" and rows:
            from ..coolio import create_from_model

            # mirror image across the anti-diagonal: still sorted-able, unique, upper-triangular; same nbins and nnz
            twin = sorted([n - 1 - r[1], n - 1 - r[0], 1] for r in rows)
            call("create twin at the same URI", create_from_model, uri, bt, twin, symmetric, h5opts={"compression": None})
            tw = call("Cooler(twin)", cooler.Cooler, uri)
            check(np.array_equal(call("twin matrix", lambda: tw.matrix(balance=False)[:]), model.dense(twin, n, symmetric, 0)), "twin collection reads wrongly")
            _ = tw.matrix(balance=False, sparse=True)[:]
            _ = tw.pixels()[:]
        skw = {"symmetric_upper": symmetric}
        if symmetric and case["junk"]:
            skw = {}        # the documented default (symmetric-upper storage) is left to the library
        okw = {"ordered": True}
        if case["form"] == "chunks-default":
            okw = {"max_merge": case.get("max_merge", 200), "mergebuf": case.get("mergebuf", 10**6)}
        call("create_cooler", cooler.create_cooler, uri, bins, px, h5opts=_h5opts(case["h5opts"]), **okw, **skw, **kw)
        clr = call("Cooler()", cooler.Cooler, uri)

        # -- pixel table --------------------------------------------------
        df = call("pixels()[:]", lambda: clr.pixels()[:])
        want_cols = ["bin1_id", "bin2_id", *cols]
        check(list(df.columns) == want_cols, f"pixel columns {list(df.columns)} want {want_cols}")
        check(len(df) == len(rows), f"pixel table has {len(df)} rows, stored {len(rows)}")
        check(list(df.index) == list(range(len(rows))), "pixel index is not 0..nnz-1")
        colpos = {"count": 2, "x": 3, "y": 4}
        check(df["bin1_id"].tolist() == [r[0] for r in rows] and df["bin2_id"].tolist() == [r[1] for r in rows],
              lambda: f"pixel ids differ: got {list(zip(df['bin1_id'], df['bin2_id']))[:6]} want {[(r[0], r[1]) for r in rows][:6]}")
        check(str(df["bin1_id"].dtype) == "int64" and str(df["bin2_id"].dtype) == "int64", "bin id dtype")
        for c in cols:
            want = [r[colpos[c]] for r in rows]
            got = df[c].tolist()
            check(got == want, lambda: f"column {c}: got {got[:8]} want {want[:8]}")
            check(str(df[c].dtype) == case["eff"][c], f"column {c} dtype {df[c].dtype}, requested {case['eff'][c]}")

        # -- full matrix --------------------------------------------------
        for c in cols:
            D = model.dense(rows, n, symmetric, colpos[c] - 2)
            A = call(f"matrix(field={c})[:]", lambda: clr.matrix(balance=False, field=c)[:])
            check(A.shape == (n, n) and np.array_equal(A, D),
                  lambda: f"dense matrix(field={c}) differs from the model at {np.argwhere(A != D)[:4].tolist()}")
            S = call(f"matrix(sparse, field={c})[:]", lambda: clr.matrix(balance=False, sparse=True, field=c)[:])
            coords = list(zip(S.row.tolist(), S.col.tolist()))
            check(len(coords) == len(set(coords)), f"sparse matrix(field={c}) emits a coordinate twice")
            check(S.shape == (n, n) and np.array_equal(S.toarray(), D), f"sparse matrix(field={c}) differs")
            want_nnz = sum(1 if (r[0] == r[1] or not symmetric) else 2 for r in rows)
            check(S.nnz == want_nnz, f"sparse matrix has {S.nnz} entries, expected {want_nnz}")

        # -- tables -------------------------------------------------------
        ch = call("chroms()[:]", lambda: clr.chroms()[:])
        check([str(x) for x in ch["name"]] == list(bt["names"])
              and [int(x) for x in ch["length"]] == [e[-1] for e in bt["edges"]], "chroms table differs")
        b = call("bins()[:]", lambda: clr.bins()[:])
        want_rows = model.bins_rows(bt)
        got_rows = [(str(c_), int(s), int(e)) for c_, s, e in zip(b["chrom"], b["start"], b["end"])]
        check(got_rows == want_rows, "bin table differs")
        check(list(b.index) == list(range(n)), "bin index")
        if isinstance(b["chrom"].dtype, pd.CategoricalDtype):
            check(list(b["chrom"].cat.categories) == list(bt["names"]), "bin chrom categories order")
        extra = _bins_extra(case["bins_extra"], n) or {}
        check(list(b.columns) == ["chrom", "start", "end", *extra.keys()], f"bin columns {list(b.columns)}")
        for k, v in extra.items():
            check(np.array_equal(b[k].to_numpy(), v, equal_nan=v.dtype.kind == "f") and b[k].dtype == v.dtype,
                  f"extra bin column {k} differs")

        # -- info ---------------------------------------------------------
        info = call("info", lambda: clr.info)
        check(info["nbins"] == n and info["nchroms"] == len(bt["names"]) and info["nnz"] == len(rows),
              f"info counts {info['nbins']}/{info['nchroms']}/{info['nnz']}")
        check(info["storage-mode"] == ("symmetric-upper" if symmetric else "square"), "storage-mode")
        if "count" in cols:
            check(info["sum"] == sum(r[2] for r in rows), f"info sum {info['sum']} want {sum(r[2] for r in rows)}")
        if case["junk"]:
            # the command line view of the same metadata query
            from ..cliutil import run_cli

            rc, out, exc = run_cli(["info", uri, "-m"])
            check(rc == 0 and exc is None, f"cooler info -m failed: {exc!r}")
            check(json.loads(out) == (case["metadata"] if case["metadata"] is not None else {}),
                  lambda: f"cooler info -m prints {out!r}, stored {case['metadata']!r}")
            rc, out, exc = run_cli(["info", uri, "-f", "nnz"])
            check(rc == 0 and out.strip() == str(len(rows)), f"cooler info -f nnz prints {out!r}")
            rc, out, exc = run_cli(["info", uri])
            check(rc == 0 and exc is None, f"cooler info failed: {exc!r}")
            d_ = json.loads(out)
            check(d_["nbins"] == n and d_["nnz"] == len(rows) and d_["storage-mode"] == info["storage-mode"] and "metadata" not in d_,
                  f"cooler info prints {d_}")
        want_meta = case["metadata"] if case["metadata"] is not None else {}
        check(info["metadata"] == want_meta and _same_types(info["metadata"], want_meta),
              lambda: f"metadata came back as {info['metadata']!r}, stored {want_meta!r}")
        asm = case["assembly"]
        if asm is None:
            check(info["genome-assembly"] == "unknown", "default assembly")
        elif info["genome-assembly"] != asm or type(info["genome-assembly"]) is not str:
            if _is_json_literal(asm) and info["genome-assembly"] == json.loads(asm):
                ctx.known_finding("C01-assembly-json-literal", case,
                                  f"assembly {asm!r} reads back as {info['genome-assembly']!r}")
            else:
                raise Violation(f"assembly {asm!r} reads back as {info['genome-assembly']!r}")
    finally:
        ctx.clean(path)

    nonempty_chunks = sum(1 for c in gen.split_at(rows, case["cuts"]) if c) if case["form"].startswith("chunks") else 1
    diag = any(r[0] == r[1] for r in rows)
    off = any(r[0] != r[1] for r in rows)
    nt = len(rows) >= 2 and (nonempty_chunks >= 2 or (diag and off) or set(bt["kinds"]) - {"fixed"}
                             or len(cols) > 1 or bool(case["dtypes"]) or case["h5opts"] is not None)
    ctx.record(case, bool(nt), [
        "form=" + case["form"], "ids=" + case.get("id_dtype", "int64"), "checks-off=" + ("+".join(case.get("checks_off", [])) or "none"), "index=" + case.get("index_kind", "range"), "sym" if symmetric else "square", "cols=" + "+".join(cols),
        "dest=" + (case["dest"] or "file"), "empty" if not rows else "nonempty",
        "chunks>=2" if nonempty_chunks >= 2 else "chunks<2",
        "emptychunk" if case["form"].startswith("chunks") and any(not c for c in gen.split_at(rows, case["cuts"])) else "no-emptychunk",
        "h5opts" if case["h5opts"] else "h5default", "meta" if case["metadata"] else "nometa",
        "bins_extra" if case["bins_extra"] else "bins_plain", "prior=" + str(case.get("prior") if rows else None)])


def _same_types(a, b):
    """JSON round trip must also preserve bool vs int vs float vs None."""
    if isinstance(b, dict):
        return isinstance(a, dict) and a.keys() == b.keys() and all(_same_types(a[k], b[k]) for k in b)
    if isinstance(b, list):
        return isinstance(a, list) and len(a) == len(b) and all(_same_types(x, y) for x, y in zip(a, b))
    if isinstance(b, bool) or b is None or isinstance(b, str):
        return type(a) is type(b)
    if isinstance(b, int):
        return isinstance(a, int) and not isinstance(a, bool)
    if isinstance(b, float):
        return isinstance(a, float) or (isinstance(a, int) and not isinstance(a, bool))
    return True


# ---------------------------------------------------------------------------
# metadata and assembly given on the command line (--metadata FILE.json, --assembly NAME)
# ---------------------------------------------------------------------------

@st.composite
def cli_meta_cases(draw):
    bt = draw(gen.bin_tables(max_chroms=2, max_bins=3, max_width=6, scale=False))
    n = gen.n_bins(bt)
    rows = draw(gen.pixels(n, True, count=st.integers(1, 9), max_nnz=4))
    doc = draw(st.dictionaries(st.text("abcdefghij-_ XYZ0123456789", min_size=1, max_size=8),
                               st.one_of(gen.json_values(), st.sampled_from([1e-05, 1e+22, -2.5e-07, 6.02e23, 1e16, 1.5, 0.1])),
                               min_size=1, max_size=4))
    return {"part": "cli-meta", "bt": bt, "rows": [r[:3] for r in rows], "metadata": doc, "assembly": draw(ASSEMBLY),
            "route": draw(st.sampled_from(["load-coo", "load-bg2", "cload-pairs"])), "indent": draw(st.sampled_from([None, 2]))}


def check_cli_meta(case, ctx: Ctx):
    import os

    import cooler

    from ..cliutil import run_cli

    bt, rows = case["bt"], case["rows"]
    br = model.bins_rows(bt)
    d = ctx.tmpdir()
    try:
        bed = os.path.join(d, "bins.bed")
        with open(bed, "w") as f:
            for c, s, e in br:
                f.write(f"{c}\t{s}\t{e}\n")
        mpath = os.path.join(d, "meta.json")
        with open(mpath, "w") as f:
            json.dump(case["metadata"], f, indent=case["indent"])
        txt = os.path.join(d, "in.txt")
        out = os.path.join(d, "out.cool")
        with open(txt, "w") as f:
            for i, j, v in rows:
                if case["route"] == "load-coo":
                    f.write(f"{i}\t{j}\t{v}\n")
                elif case["route"] == "load-bg2":
                    f.write(f"{br[i][0]}\t{br[i][1]}\t{br[i][2]}\t{br[j][0]}\t{br[j][1]}\t{br[j][2]}\t{v}\n")
                else:
                    for _ in range(v):
                        f.write(f"r\t{br[i][0]}\t{br[i][1] + 1}\t{br[j][0]}\t{br[j][1] + 1}\t+\t-\n")
        if case["route"] == "cload-pairs":
            args = ["cload", "pairs", bed, txt, out, "-c1", 2, "-p1", 3, "-c2", 4, "-p2", 5]
        else:
            args = ["load", "-f", case["route"].split("-")[1], bed, txt, out]
        args += ["--metadata", mpath]
        if case["assembly"] is not None:
            args += ["--assembly", case["assembly"]]
        rc, _, exc = run_cli(args)
        check(rc == 0 and exc is None, f"cooler {args[0]} {args[1]} --metadata failed: exit {rc} {exc!r}")
        clr = cooler.Cooler(out)
        info = clr.info
        check(info["metadata"] == case["metadata"] and _same_types(info["metadata"], case["metadata"]),
              lambda: f"metadata given as {case['metadata']!r} through --metadata came back as {info['metadata']!r}")
        asm = case["assembly"]
        if asm is None:
            check(info["genome-assembly"] == "unknown", "default assembly")
        elif info["genome-assembly"] != asm or type(info["genome-assembly"]) is not str:
            if _is_json_literal(asm) and info["genome-assembly"] == json.loads(asm):
                ctx.known_finding("C01-assembly-json-literal", case, f"assembly {asm!r} reads back as {info['genome-assembly']!r}")
            else:
                raise Violation(f"--assembly {asm!r} reads back as {info['genome-assembly']!r}")
        df = clr.pixels()[:]
        got = [[a, b, c] for a, b, c in zip(df["bin1_id"].tolist(), df["bin2_id"].tolist(), df["count"].tolist())]
        check(got == rows, lambda: f"pixels {got} want {rows}")
    finally:
        ctx.clean(d)
    ctx.record(case, True, ["cli-meta", "meta-route=" + case["route"]])


CHECKS = {"roundtrip": check_roundtrip, "cli-meta": check_cli_meta}


def replay(ctx: Ctx, case):
    CHECKS[case["part"]](case, ctx)


def run(ctx: Ctx):
    q = ctx.tier == "quick"
    parts = [given_part(ctx, "cli-meta", cli_meta_cases(), check_cli_meta, per_shard(ctx, 160 if q else 4000), batch=20 if q else 50),
             given_part(ctx, "roundtrip", cases(4, 6), check_roundtrip, per_shard(ctx, 3400 if q else 90000), batch=100 if q else 200),
             # more than 2**7.5 (and 2**8) bins, few pixels: products of two bin ids no longer fit the narrow id types
             given_part(ctx, "roundtrip-tall", cases(2, 4, max_nnz=40, min_total_bins=185), check_roundtrip, per_shard(ctx, 240 if q else 8000), batch=15)]
    if not q:
        parts.append(given_part(ctx, "roundtrip-large", cases(8, 8), check_roundtrip, per_shard(ctx, 40000), batch=200))
    run_parts(ctx, parts)
