"""C09 - every zoom level of a multires file equals direct coarsening of its base."""
from __future__ import annotations

import math
import os

import numpy as np
from hypothesis import strategies as st

from .. import gen, model, schema
from ..cliutil import run_cli
from ..core import Ctx, Violation, call, check, must_raise, per_shard, run_given, given_part, machine_part, run_parts

PID = "C09"
LEVEL = "exploration"
SHARDS = {"quick": 8, "thorough": 16}
BUDGET = {"quick": 85, "thorough": 840}
RULE = (
    "API cases: finest model (fixed width b, or variable => pseudo-resolution 1) x 1..3 base coolers derived from "
    "it by the model (consistent) or from unrelated matrices (inconsistent, incl. bases that are multiples of one "
    "another) x target set (multiples in any order, with/without the bases, mixed-predecessor ladders like 2,3,6 "
    "/ 2,4,6,12, duplicates, a non-derivable member) x chunksize x nproc x value columns. CLI cases: cooler zoomify "
    "-r <spec> for spec spellings list / kN / kB / n / b / 4dn (any letter case) on a genome of >=1024 bins. "
    "Oracle: model coarsening; expected level set = targets U bases. Non-trivial = >=2 derived levels of which "
    ">=1 has a non-base predecessor. Distinct by sha1 of the canonical case."
    ' CLI cases also draw one or two --field specs (either order, different aggregates) on a base with a second value column, bases written by an older schema version (no storage-mode attribute: symmetric-upper by definition; every level must read in that mode and its full-matrix view must be the symmetric completion); a finer base through --base-uri (COOL_PATH coarser), additional bases through --base-uri that no requested resolution derives from, -r 4DN on genomes up to 7 Mb, and --legacy (integer-labelled quad-tree levels, recognition, every level against the model).'
)
ASSUMPTIONS = [
    "with mutually inconsistent bases a derived level must equal the coarsening of SOME base that divides it (validity predicate)",
]


@st.composite
def zoom_cases(draw):
    variable = draw(st.integers(0, 4)) == 0
    if variable:
        bt = draw(gen.bin_tables(max_chroms=3, max_bins=7, kinds=("variable", "onebin", "near-uniform"), all_fixed_prob=0.0))
        if model.true_binsize(bt) is not None:
            bt["edges"][0] = [0, 1, 3] if bt["edges"][0][-1] != 3 else [0, 2, 3]
            bt["edges"].append([0, 5, 6, 20])
            bt["names"] = [f"v{t}" for t in range(len(bt["edges"]))]
            bt["kinds"] = ["variable"] * len(bt["edges"])
        unit = 1
        base_mults = [1]
    else:
        bt = draw(gen.fixed_bin_tables(max_chroms=3, max_bins=13, scale=False))
        unit = bt["b"]
        base_mults = draw(st.sampled_from([[1], [1], [2], [1, 2], [2, 3], [1, 3], [2, 4], [1, 2, 3], [3], [1, 4], [2, 3, 4]]))
        # every base must still show its width (>= 2 bins on some chromosome), otherwise cooler
        # legitimately treats it as variable-width with pseudo-resolution 1
        need = 2 * max(base_mults)
        if len(bt["edges"][0]) - 1 < need:
            b = bt["b"]
            bt["edges"][0] = [b * t for t in range(need)] + [b * need - draw(st.integers(0, b - 1))]
    n = gen.n_bins(bt)
    symmetric = draw(st.booleans())
    rows = draw(gen.pixels(n, symmetric, count=st.integers(1, 500), extra_cols=[gen.DYADIC], max_nnz=60))
    consistent = draw(st.integers(0, 4)) >= 2 or len(base_mults) == 1
    others = []
    if not consistent:
        for m in base_mults[1:]:
            cb = model.coarsen_bins(bt, m)
            others.append(draw(gen.pixels(gen.n_bins(cb), symmetric, count=st.integers(1, 500), extra_cols=[gen.DYADIC], max_nnz=40)))
    ladder = draw(st.sampled_from(["free", "free", "2-3-6", "2-4-6-12", "pow2", "non-derivable", "base-only"]))
    lcm_ = math.lcm(*base_mults)
    if ladder == "2-3-6":
        tm = [2, 3, 6]
    elif ladder == "2-4-6-12":
        tm = [2, 4, 6, 12]
    elif ladder == "base-only":
        tm = [base_mults[0]]         # the file then holds the base level(s) only
    elif ladder == "pow2":
        tm = [base_mults[0] * 2 ** t for t in range(1, draw(st.integers(2, 4)))]
    else:
        tm = draw(st.lists(st.integers(1, 12), min_size=1, max_size=5))
    # keep only derivable members unless the class asks for a non-derivable one
    derivable = [t for t in tm if any(t % m == 0 for m in base_mults)]
    if ladder == "non-derivable":
        bad = [t for t in range(1, 14) if not any(t % m == 0 for m in base_mults)]
        if bad:
            tm = derivable + [draw(st.sampled_from(bad))]
        else:
            ladder = "free"
            tm = derivable or [lcm_]
    else:
        tm = derivable or [lcm_ * 2]
    if len(base_mults) >= 2 and ladder not in ("non-derivable", "base-only") and draw(st.booleans()):
        tm = tm + [2 * m_ for m_ in base_mults]     # one derived level per base, processed in ascending order
    if draw(st.booleans()):
        tm = tm + [draw(st.sampled_from(tm))]      # duplicate member
    tm = list(draw(st.permutations(tm)))
    return {"part": "zoom", "bt": bt, "unit": unit, "symmetric": symmetric, "rows": rows, "base_mults": base_mults,
            "consistent": consistent, "others": others, "targets": tm, "ladder": ladder,
            "chunksize": draw(st.sampled_from([1, 3, 10, 10**6])), "nproc": draw(st.sampled_from([1] * 12 + [2])),
            "cols": draw(st.sampled_from([None, None, ["count"], ["count", "x"]])),
            "base_order": list(draw(st.permutations(list(range(len(base_mults)))))),
            "base_dtypes": (["int32", "float64", "float64"][: len(base_mults)] if (not consistent and draw(st.booleans()))
                            else [draw(st.sampled_from(["int32", "int32", "float64", "int64"])) for _ in base_mults])}


def _read(clr, cols):
    df = clr.pixels()[:]
    data = [df[c].tolist() for c in cols]
    return [[a, b, *[d[t] for d in data]] for t, (a, b) in enumerate(zip(df["bin1_id"].tolist(), df["bin2_id"].tolist()))]


def _proj(rows, cols):
    idx = {"count": 2, "x": 3}
    return [[r[0], r[1], *[r[idx[c]] for c in cols]] for r in rows]


def check_zoom(case, ctx: Ctx):
    import h5py

    import cooler
    from cooler.fileops import is_multires_file, list_coolers

    from ..coolio import create_from_model

    bt, unit, symmetric = case["bt"], case["unit"], case["symmetric"]
    cols = case["cols"] or ["count"]
    work = ctx.tmpdir()
    try:
        bases = {}     # mult -> (uri, bt_m, rows_m)
        for t, m in enumerate(case["base_mults"]):
            bt_m = model.coarsen_bins(bt, m) if m > 1 else {"names": bt["names"], "edges": bt["edges"]}
            if t == 0 or case["consistent"]:
                rows_m = model.coarsen_rows(bt, case["rows"], m, symmetric, ("sum", "sum")) if m > 1 else case["rows"]
            else:
                rows_m = case["others"][t - 1]
            p = os.path.join(work, f"base{m}.cool")
            uri = p if t % 2 == 0 else p + "::/b"
            nb = gen.n_bins(bt_m)
            bdt = (case.get("base_dtypes") or ["int32"] * 9)[t]
            if bdt == "float64" and not case["consistent"] and t > 0:
                # an unrelated base may also hold fractional counts
                rows_m = [[r[0], r[1], r[2] + 0.25, *r[3:]] for r in rows_m]
            call("create base", create_from_model, uri, bt_m, rows_m, symmetric, cols=("count", "x"),
                 bins_extra={"weight": np.arange(nb, dtype=float) / 4 + 0.5}, metadata={"base": m},
                 assembly="asm" + str(m), dtypes={"count": np.dtype(bdt)}, h5opts={"compression": None})
            if symmetric and case["chunksize"] % 3 == 0:
                # a base written by an older schema version: no storage-mode attribute (symmetric-upper by definition)
                fp_, gp_ = (uri.split("::") + ["/"])[:2]
                with h5py.File(fp_, "r+") as f_:
                    if "storage-mode" in f_[gp_].attrs:
                        del f_[gp_].attrs["storage-mode"]
            bases[m] = (uri, bt_m, rows_m)
        out = os.path.join(work, "out.mcool")
        resolutions = [unit * t for t in case["targets"]]
        base_uris = [bases[case["base_mults"][t]][0] for t in case["base_order"]]
        kw = {"columns": list(case["cols"])} if case["cols"] is not None else {}
        derivable = all(any(t % m == 0 for m in case["base_mults"]) for t in case["targets"])
        if not derivable:
            must_raise(f"zoomify with a non-derivable resolution {resolutions} from bases {[unit * m for m in case['base_mults']]}",
                       cooler.zoomify_cooler, base_uris, out, resolutions, case["chunksize"], **kw)
            if os.path.exists(out):
                listed = list_coolers(out) if h5py.is_hdf5(out) else []
                want_only = {f"/resolutions/{unit * m}" for m in case["base_mults"]}
                check(set(listed) <= want_only, f"a refused zoomify left derived levels behind: {listed}")
            ctx.record(case, True, ["zoom", "non-derivable"])
            return
        # the resolutions as a list, a tuple, an integer array, or a one-shot iterable (generator / map object)
        rform = ["list", "tuple", "array", "generator", "map", "list"][(len(case["rows"]) + len(resolutions)) % 6]
        res_arg = {"list": list, "tuple": tuple, "array": lambda r: np.array(r, dtype=np.int64), "generator": lambda r: (x for x in r),
                   "map": lambda r: map(int, r)}[rform](resolutions)
        call(f"zoomify_cooler(bases={[unit * m for m in case['base_mults']]}, resolutions={resolutions} as {rform})",
             cooler.zoomify_cooler, base_uris if len(base_uris) > 1 or case["chunksize"] == 1 else base_uris[0],
             out, res_arg, case["chunksize"], nproc=case["nproc"], **kw)
        levels = sorted(set(case["targets"]) | set(case["base_mults"]))
        want_list = [f"/resolutions/{unit * t}" for t in levels]
        got_list = list_coolers(out)
        check(got_list == want_list, lambda: f"levels in the file {got_list}, expected {want_list}")
        check(is_multires_file(out), "file is not recognised as multi-resolution")
        n_derived_nonbase_pred = 0
        for t in levels:
            uri = f"{out}::/resolutions/{unit * t}"
            clr = cooler.Cooler(uri)
            got_bins = model.read_bins(clr)
            got_px = _read(clr, cols)
            with h5py.File(out, "r") as f:
                probs = schema.validate(f[f"/resolutions/{unit * t}"])
            if t in case["base_mults"] and symmetric and case["chunksize"] % 3 == 0:
                # the faithful copy of an older-schema base has no storage-mode attribute either
                probs = [p_ for p_ in probs if "storage-mode" not in p_]
            check(not probs, lambda: f"level {unit * t} violates the schema: {probs[:3]}")
            check(clr.storage_mode == ("symmetric-upper" if symmetric else "square"),
                  lambda: f"level {unit * t} is read in storage mode {clr.storage_mode!r}, the bases are {'symmetric-upper' if symmetric else 'square'}")
            if t not in bases and not probs:
                D_ = model.dense([r[:3] for r in got_px], len(got_bins), symmetric, 0) if cols[0] == "count" or True else None
                A_ = clr.matrix(balance=False, field=cols[0])[:]
                check(np.array_equal(A_, D_), lambda: f"level {unit * t}: the full-matrix view is not the {'symmetric completion' if symmetric else 'stored matrix'} of its pixel table")
            if model.true_binsize(bt) is not None:
                lvl_bt = model.coarsen_bins(bt, t) if t > 1 else bt
                want_bs = unit * t if model.true_binsize(lvl_bt) is not None else None
                check(clr.binsize == want_bs, f"level {unit * t} reports bin size {clr.binsize}, expected {want_bs}")
            if t in bases:
                uri_b, bt_b, rows_b = bases[t]
                check(got_bins == model.bins_rows(bt_b), f"base level {unit * t}: bin table is not a copy of its source")
                check(got_px == _proj(rows_b, cols),
                      lambda: f"base level {unit * t} is not a faithful copy of its source: got {got_px[:5]} want {_proj(rows_b, cols)[:5]}")
                src = cooler.Cooler(uri_b)
                w = clr.bins()[:]
                check("weight" in w.columns and np.array_equal(w["weight"].to_numpy(), src.bins()[:]["weight"].to_numpy()),
                      f"base level {unit * t}: extra bin column not copied")
                si, di = src.info, clr.info
                for key in ("metadata", "genome-assembly", "nnz", "nbins", "nchroms", "sum", "storage-mode", "bin-size", "bin-type"):
                    check(si.get(key) == di.get(key), f"base level {unit * t}: attribute {key} {di.get(key)!r} != source {si.get(key)!r}")
            else:
                ok = False
                cands = []
                for m, (_, bt_b, rows_b) in bases.items():
                    if t % m:
                        continue
                    wb = model.bins_rows(model.coarsen_bins(bt_b, t // m))
                    wp = model.coarsen_rows(bt_b, _proj(rows_b, cols), t // m, symmetric, tuple("sum" for _ in cols))
                    cands.append((m, wp))
                    if got_bins == wb and got_px == wp:
                        ok = True
                        break
                check(ok, lambda: f"derived level {unit * t} equals the coarsening of none of its bases "
                                  f"{[unit * m for m, _ in cands]}: got {got_px[:5]} want e.g. {cands[0][1][:5]}")
                smaller = [u for u in levels if u < t and t % u == 0]
                if smaller and max(smaller) not in bases:
                    n_derived_nonbase_pred += 1
    finally:
        ctx.clean(work)
    n_derived = len([t for t in set(case["targets"]) if t not in case["base_mults"]])
    ctx.record(case, n_derived >= 2 and n_derived_nonbase_pred >= 1,
               ["zoom", f"bases={len(case['base_mults'])}", "consistent" if case["consistent"] else "inconsistent",
                "ladder=" + case["ladder"], "variable" if unit == 1 and bt["kinds"][0] != "fixed" else "fixed",
                f"nproc={case['nproc']}", "cols=" + "+".join(cols)])


# ---------------------------------------------------------------------------
# command line: resolution specs
# ---------------------------------------------------------------------------

@st.composite
def cli_cases(draw):
    b = draw(st.sampled_from([1000, 1000, 500, 100, 250, 40]))
    nb = [draw(st.integers(600, 1500)), draw(st.integers(500, 900))]
    kind = draw(st.sampled_from(["list", "list", "list", "kN", "kB", "n", "b", "4dn", "4dn", "default", "mixed", "legacy", "legacy"]))
    k = b * draw(st.sampled_from([1, 1, 2, 5]))
    exact = draw(st.booleans())     # genome length chosen so that ceil(total/256) is exactly a progression member
    if exact:
        member = b * draw(st.sampled_from([4, 8, 10, 20, 16, 5, 2]))
        total_bins = 256 * member // b
        n0 = draw(st.integers(total_bins // 3, 2 * total_bins // 3))
        nb = [n0, total_bins - n0]
    if kind == "list":
        spec = ",".join(str(b * m) for m in draw(st.lists(st.sampled_from([1, 2, 3, 4, 6, 8, 10]), min_size=1, max_size=4, unique=True)))
    elif kind == "kN":
        spec = f"{k}{draw(st.sampled_from(['N', 'n']))}"
    elif kind == "kB":
        spec = f"{k}{draw(st.sampled_from(['B', 'b']))}"
    elif kind == "n":
        spec = draw(st.sampled_from(["n", "N"]))
    elif kind == "b":
        spec = draw(st.sampled_from(["b", "B"]))
    elif kind == "4dn":
        b = draw(st.sampled_from([1000, 500, 250]))
        # genomes from 1.6 Mb to 7.3 Mb: ceil(genome/256) from below 10 kb to beyond 25 kb, where the 4DN series
        # (1k, 2k, 5k, 10k, 25k, ...) and the plain 1000N series (.., 10k, 20k, ..) part ways
        nb = [draw(st.integers(1300 * (1000 // b), 7000 * (1000 // b))), 300 * (1000 // b)]
        spec = draw(st.sampled_from(["4dn", "4DN"]))
    elif kind == "legacy":
        # --legacy: quad-tree layout with integer-labelled levels; bases from "fits one tile" (no zoom-out) to 3 rounds
        if draw(st.booleans()):
            nb = [draw(st.integers(10, 150)), draw(st.integers(5, 100))]       # at most 256 bins: one tile, level 0 only
        else:
            nb = [draw(st.integers(20, 900)), draw(st.integers(10, 500))]
        spec = None
        exact = False
    elif kind == "default":
        spec = None
    else:
        spec = f"{b * 3},{k}{draw(st.sampled_from(['B', 'b', 'N']))}"
    # value columns given on the command line: several --field options in any order, each with its own aggregate
    fields = draw(st.sampled_from([["x:agg=max", "count"], None, ["x:agg=max", "count:agg=sum"], ["count:agg=max", "x"], None, ["count", "x:agg=min"],
                                   ["count"], ["x:agg=max"]]))
    # COOL_PATH is a COARSER cooler (m x the base bin size) and the fine base comes in through --base-uri; progressions
    # given with an explicit start then begin below COOL_PATH's own resolution
    base_m = draw(st.sampled_from([None, None, None, 2, 5])) if kind in ("list", "kN", "kB", "4dn", "mixed", "n", "b") else None
    if base_m and kind in ("kN", "kB", "mixed"):
        spec = spec.replace(str(k), str(b), 1) if kind != "mixed" else f"{b * 3},{b}{spec[-1]}"
    if base_m:
        fields = None
    # additional base coolers (prime multiples of the base bin size) given with --base-uri although no requested resolution
    # derives from them: every base is still copied ("each base resolution exactly once")
    extra_bases = []
    if kind == "list" and draw(st.integers(0, 1)) == 1:
        base_m, fields = None, None
        extra_bases = draw(st.sampled_from([[7], [3, 7], [11], [5]]))
    return {"part": "cli", "b": b, "nbins": nb, "kind": kind, "spec": spec, "exact": exact and kind != "4dn", "fields": fields, "base_m": base_m, "extra_bases": extra_bases,
            # (most coordinates close together, so that coarse pixels really aggregate several fine ones)
            "px": draw(st.lists(st.tuples(st.one_of(st.integers(0, 23), st.integers(0, 23), st.integers(0, 499)),
                                          st.one_of(st.integers(0, 23), st.integers(0, 23), st.integers(0, 499)), st.integers(1, 9)), min_size=5, max_size=14,
                                unique_by=lambda t: (min(t[0], t[1]), max(t[0], t[1]))))}


def _binary(start, stop):
    out, v = [], start
    while v <= stop or not out:
        out.append(v)
        v *= 2
    return out


def _nice(start, stop):
    out = {start}
    p = start
    while p <= stop:
        for m in (1, 2, 5):
            if p * m <= stop:
                out.add(p * m)
        p *= 10
    return sorted(out)


def _expand(spec, b, maxres):
    if spec is None:
        return _binary(b, maxres) if b <= maxres else [b]
    out = []
    for tok in spec.lower().split(","):
        tok = tok.strip()
        if tok == "n":
            out += _nice(b, maxres) if b <= maxres else []
        elif tok == "b":
            out += _binary(b, maxres) if b <= maxres else []
        elif tok == "4dn":
            out += [1000, 2000] + (_nice(5000, maxres) if 5000 <= maxres else [])
        elif tok.endswith("n"):
            k = int(tok[:-1])
            out += _nice(k, maxres) if k <= maxres else []
        elif tok.endswith("b"):
            k = int(tok[:-1])
            out += _binary(k, maxres) if k <= maxres else []
        else:
            out.append(int(tok))
    return out


def check_cli(case, ctx: Ctx):
    import cooler
    from cooler.fileops import is_multires_file, list_coolers

    from ..coolio import create_from_model

    b, nb = case["b"], case["nbins"]
    bt = model.binnify(["chr1", "chr2"], [nb[0] * b - (0 if case.get("exact") else b // 3), nb[1] * b], b)
    rows = sorted([min(i, j) % sum(nb), max(i, j) % sum(nb), v] for i, j, v in case["px"])
    rows = sorted({(min(i, j), max(i, j)): [min(i, j), max(i, j), v] for i, j, v in rows}.values())
    if case["kind"] == "legacy":
        return _check_legacy(case, ctx, bt, rows)
    fields = case.get("fields")
    cols, aggs = ["count"], ("sum",)
    if fields:
        # second value column, never equal to count and not monotone in it
        rows = [[i, j, v, (7 * v + 3 * i + j) % 11 + 10] for i, j, v in rows]
        spec_ = [(f.split(":")[0], (f.split("agg=")[1] if "agg=" in f else "sum")) for f in fields]
        cols = [c for c, _ in spec_]
        aggs = tuple(a for _, a in spec_)
    work = ctx.tmpdir()
    try:
        base = os.path.join(work, "base.cool")
        if fields:
            call("create base", create_from_model, base, bt, rows, True, cols=("count", "x"), dtypes={"x": "int64"}, h5opts={"compression": None})
        else:
            call("create base", create_from_model, base, bt, rows, True, h5opts={"compression": None})
        out = os.path.join(work, "z.mcool")
        args = ["zoomify", base, "-o", out, "-c", "100000"]
        cur = b
        if case.get("base_m"):
            m_ = case["base_m"]
            coarse = os.path.join(work, "coarse.cool")
            call("create the coarser COOL_PATH", create_from_model, coarse, model.coarsen_bins(bt, m_),
                 model.coarsen_rows(bt, rows, m_, True, ("sum",)), True, h5opts={"compression": None})
            args = ["zoomify", coarse, "--base-uri", base, "-o", out, "-c", "100000"]
            cur = b * m_
        for m_x in case.get("extra_bases") or []:
            xb = os.path.join(work, f"extra{m_x}.cool")
            call(f"create the extra base at {b * m_x}", create_from_model, xb, model.coarsen_bins(bt, m_x),
                 model.coarsen_rows(bt, rows, m_x, True, ("sum",)), True, h5opts={"compression": None})
            args += ["--base-uri", xb]
        for f in fields or []:
            args += ["--field", f]
        if case["spec"] is not None:
            args += ["-r", case["spec"]]
        genome = sum(e[-1] for e in bt["edges"])
        maxres = int(math.ceil(genome / 256))
        want = sorted(set(_expand(case["spec"], cur, maxres)) | {b, cur} | {b * m_x for m_x in case.get("extra_bases") or []})
        derivable = all(r % b == 0 for r in want)
        rc, outtxt, exc = run_cli(args)
        if not derivable:
            check(rc != 0, f"zoomify -r {case['spec']} with non-multiples {want} of base {b} was accepted")
            ctx.record(case, True, ["cli", "cli-refused", "cli-" + case["kind"]])
            return
        check(rc == 0 and exc is None, f"cooler zoomify -r {case['spec']} (base {b}, maxres {maxres}) failed: exit {rc} {exc!r}")
        got = list_coolers(out)
        check(got == [f"/resolutions/{r}" for r in want],
              lambda: f"zoomify -r {case['spec']} on base {b} (genome {genome}, maxres {maxres}) produced {got}, documented progression is {want}")
        check(is_multires_file(out), "not recognised as multires")
        # (with --field specs the coarsest level is always among the levels compared: that is where several fine pixels meet)
        for r in sorted(set(want[:: max(1, len(want) // 3)]) | {b * m_x for m_x in case.get("extra_bases") or []} | ({want[-1]} if fields else set())):
            clr = cooler.Cooler(f"{out}::resolutions/{r}")
            k = r // b
            pr = _proj(rows, cols) if fields else rows
            wp = model.coarsen_rows(bt, pr, k, True, aggs) if k > 1 else pr
            gp = _read(clr, cols)
            check(gp == wp, lambda: f"level {r} {cols} differs from coarsening the base by {k} with {aggs}: got {gp[:4]} want {wp[:4]}")
            check(sorted(clr.pixels()[:].columns) == sorted(["bin1_id", "bin2_id", *cols]),
                  lambda: f"level {r} has columns {list(clr.pixels()[:].columns)}, --field named {cols}")
            check(model.read_bins(clr) == model.bins_rows(model.coarsen_bins(bt, k) if k > 1 else bt), f"level {r} bin table differs")
    finally:
        ctx.clean(work)
    ctx.record(case, len(want) >= 3, ["cli", "cli-" + case["kind"], f"cli-levels={min(len(want), 6)}", "cli-fields=" + ",".join(fields or ["default"]), "cli-finer-base-uri" if case.get("base_m") else f"cli-extra-bases={len(case.get('extra_bases') or [])}",
                                      "cli-maxres-is-member" if maxres in want else "cli-maxres-between"])


def _check_legacy(case, ctx, bt, rows):
    import cooler
    from cooler.fileops import is_multires_file, list_coolers

    from ..coolio import create_from_model

    b = case["b"]
    work = ctx.tmpdir()
    try:
        base = os.path.join(work, "base.cool")
        call("create base", create_from_model, base, bt, rows, True, h5opts={"compression": None})
        out = os.path.join(work, "z.mcool")
        rc, _, exc = run_cli(["zoomify", base, "--legacy", "-o", out, "-c", "100000"])
        check(rc == 0 and exc is None, f"cooler zoomify --legacy failed: exit {rc} {exc!r}")
        # documented depth: base tiles = smallest power of two covering the genome with 256-bin tiles
        genome = sum(e[-1] for e in bt["edges"])
        tiles = -(-genome // (256 * b))
        depth = 0
        while 2 ** depth < tiles:
            depth += 1
        got = list_coolers(out)
        check(sorted(got) == sorted(f"/{k}" for k in range(depth + 1)),
              lambda: f"zoomify --legacy on {gen.n_bins(bt)} bins ({tiles} base tile(s)) produced {got}, the quad tree has levels 0..{depth}")
        check(is_multires_file(out), f"the legacy-layout file with levels {got} is not recognised as multi-resolution")
        for k in range(depth + 1):
            clr = cooler.Cooler(f"{out}::/{k}")
            f_ = 2 ** (depth - k)
            wp = model.coarsen_rows(bt, rows, f_, True, ("sum",)) if f_ > 1 else rows
            check(_read(clr, ["count"]) == wp, f"legacy level {k} differs from coarsening the base by {f_}")
            check(model.read_bins(clr) == model.bins_rows(model.coarsen_bins(bt, f_) if f_ > 1 else bt), f"legacy level {k} bin table differs")
    finally:
        ctx.clean(work)
    ctx.record(case, True, ["cli", "cli-legacy", f"cli-legacy-depth={depth}"])


CHECKS = {"zoom": check_zoom, "cli": check_cli}


def replay(ctx: Ctx, case):
    CHECKS[case["part"]](case, ctx)


def run(ctx: Ctx):
    q = ctx.tier == "quick"
    parts = []
    parts.append(given_part(ctx, "zoom", zoom_cases(), check_zoom, per_shard(ctx, 640 if q else 24000), batch=40))
    parts.append(given_part(ctx, "cli", cli_cases(), check_cli, per_shard(ctx, 144 if q else 4000), batch=18))
    run_parts(ctx, parts)
