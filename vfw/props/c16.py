"""C16 - text export agrees with the API; re-importing it reproduces the cooler."""
from __future__ import annotations

import math
import os

import numpy as np
from hypothesis import strategies as st

from .. import gen, model
from ..cliutil import run_cli
from ..core import Ctx, Violation, call, check, per_shard, run_given, given_part, machine_part, run_parts
from . import c05, c09

PID = "C16"
LEVEL = "exploration"
SHARDS = {"quick": 8, "thorough": 16}
BUDGET = {"quick": 85, "thorough": 840}
RULE = (
    "(a) dump: generated cooler (+/- weight and gc bin columns, both storage modes) x every subset of "
    "{range, range2, fill-lower, join, balanced, annotate, one-based-ids, one-based-starts, header} x chunksize "
    "x float format, and the chroms/bins tables with column subsets; oracle = model rows (not the engines) plus "
    "the library query matrix(as_pixels=True) as a second reference. (b) dump -> cooler load -f coo|bg2 with the "
    "same bins given as chromsizes:binsize or BED, +/- one-based, -N, duplex for filled dumps, --chunksize 1.. and --max-merge 2.. (two-pass merge of the loader); "
    "the reloaded pixel table must equal the original. (c) pairs / COO / BG2 text whose columns are permuted and "
    "interleaved with junk columns, with -c1/-p1/-c2/-p2 and --field name=N[:dtype] to match; oracle = C05's "
    "record model. (d) zoomify resolution specs (shared with C09). Non-trivial = >=2 options combined with a "
    "restricting region, or a non-monotone field layout. Distinct by sha1 of the canonical case."
    ' Also: for generated 3-5-bin chromosomes ALL pairs of bin-aligned -r/-r2 ranges through cooler dump with and without --fill-lower (rows as multisets against the model); tabix-indexed pairs with the second mate outside the default columns (`cload tabix -c2 -p2`); a default-layout load after a --field load in the same process.'
)
ASSUMPTIONS = [
    "counts >= 1 (a stored zero is indistinguishable from an absent pixel after fill-lower)",
    "with the default %g float format values are compared to 1e-5 relative; to 1e-12 relative (order of the three-factor product is free) with --float-format .17g",
]


@st.composite
def dump_cases(draw):
    bt = draw(gen.bin_tables(max_chroms=3, max_bins=5, max_width=7, scale=False))
    n = gen.n_bins(bt)
    symmetric = draw(st.booleans())
    rows = draw(gen.pixels(n, symmetric, count=st.integers(1, 999), max_nnz=40))
    has_weight = draw(st.booleans())
    w = st.one_of(st.floats(0.05, 20.0, allow_nan=False), st.just(None))
    weights = draw(st.lists(w, min_size=n, max_size=n)) if has_weight else None

    def region(same_as=None):
        ci = draw(st.integers(0, len(bt["names"]) - 1)) if same_as is None else bt["names"].index(same_as)
        L = bt["edges"][ci][-1]
        kind = draw(st.sampled_from(["bare", "range", "range", "open"]))
        if kind == "bare":
            return [bt["names"][ci], 0, L, bt["names"][ci]]
        a = draw(st.integers(0, L - 1))
        b = draw(st.integers(a + 1, L))
        if kind == "open":
            return [bt["names"][ci], a, L, f"{bt['names'][ci]}:{a}-"]
        return [bt["names"][ci], a, b, f"{bt['names'][ci]}:{a:,}-{b}"]

    use_range = draw(st.booleans())
    r1 = region() if use_range else None
    # the column range is often a part of the same chromosome, so that the box straddles the diagonal
    r2 = (region(r1[0] if draw(st.booleans()) else None) if use_range and draw(st.booleans()) else None)
    return {"part": "dump", "bt": bt, "symmetric": symmetric, "rows": rows, "weights": weights,
            "range": r1, "range2": r2, "fill_lower": draw(st.booleans()), "join": draw(st.booleans()),
            "balanced": has_weight and draw(st.booleans()), "annotate": draw(st.sampled_from([None, None, ["gc"], ["gc", "mask"]])),
            "one_based_ids": draw(st.booleans()), "one_based_starts": draw(st.booleans()),
            "header": draw(st.booleans()), "chunksize": draw(st.sampled_from([None, 1, 2, 5, 10**6])),
            "float_format": draw(st.sampled_from([None, ".17g"])), "na_rep": draw(st.sampled_from([None, "NA"])),
            "to_file": draw(st.booleans()),
            # schema v2 / legacy files carry no storage-mode attribute and are symmetric-upper by definition
            "legacy_attr": symmetric and draw(st.integers(0, 4)) == 0}


def _extras(n):
    return {"gc": np.array([((7 * k) % 16) / 16.0 for k in range(n)], dtype="float64"),
            "mask": np.array([k % 3 for k in range(n)], dtype="int64")}


def _make(ctx, case, path):
    from ..coolio import create_from_model

    n = gen.n_bins(case["bt"])
    extra = _extras(n)
    if case["weights"] is not None:
        extra = {"weight": np.array([np.nan if v is None else v for v in case["weights"]], dtype=float), **extra}
    call("create", create_from_model, path, case["bt"], case["rows"], case["symmetric"], bins_extra=extra, h5opts={"compression": None})


def _close(a: str, b: float, exact: bool) -> bool:
    if a in ("", "NA"):
        return b != b
    x = float(a)
    if b != b:
        return False
    return math.isclose(x, b, rel_tol=1e-12 if exact else 1e-5, abs_tol=1e-300 if exact else 1e-12)


def check_dump(case, ctx: Ctx):
    import cooler

    bt, rows, symmetric = case["bt"], case["rows"], case["symmetric"]
    n = gen.n_bins(bt)
    br = model.bins_rows(bt)
    ex = _extras(n)
    W = None if case["weights"] is None else [float("nan") if v is None else v for v in case["weights"]]
    d = ctx.tmpdir()
    try:
        path = os.path.join(d, "in.cool")
        _make(ctx, case, path)
        if case.get("legacy_attr"):
            import h5py

            with h5py.File(path, "r+") as f:
                del f.attrs["storage-mode"]
        args = ["dump", path]
        i0, i1, j0, j1 = 0, n, 0, n
        if case["range"]:
            args += ["--range", case["range"][3]]
            i0, i1 = model.overlap_bins(bt, *case["range"][:3])
            j0, j1 = i0, i1
            if case["range2"]:
                args += ["--range2", case["range2"][3]]
                j0, j1 = model.overlap_bins(bt, *case["range2"][:3])
        for flag, name in (("fill_lower", "--fill-lower"), ("join", "--join"), ("balanced", "--balanced"),
                           ("one_based_ids", "--one-based-ids"), ("one_based_starts", "--one-based-starts"), ("header", "--header")):
            if case[flag]:
                args.append(name)
        if case["annotate"]:
            args += ["--annotate", ",".join(case["annotate"])]
        if case["chunksize"]:
            args += ["--chunksize", str(case["chunksize"])]
        if case["float_format"]:
            args += ["--float-format", case["float_format"]]
        if case["na_rep"]:
            args += ["--na-rep", case["na_rep"]]
        outp = os.path.join(d, "dump.txt")
        if case["to_file"]:
            args += ["-o", outp]
        rc, text, exc = run_cli(args)
        check(rc == 0 and exc is None, f"cooler {' '.join(args[:1] + args[2:])} failed: exit {rc} {exc!r}")
        if case["to_file"]:
            with open(outp) as f:
                text = f.read()
        # ---- model rows ----------------------------------------------------
        filled = case["fill_lower"] and symmetric
        if filled:
            base = []
            for i, j, v in (r[:3] for r in rows):
                if i0 <= i < i1 and j0 <= j < j1:
                    base.append((i, j, v))
                if i != j and i0 <= j < i1 and j0 <= i < j1:
                    base.append((j, i, v))
        else:
            base = [(i, j, v) for i, j, v in (r[:3] for r in rows) if i0 <= i < i1 and j0 <= j < j1]
        cols = []
        want = []
        for i, j, v in base:
            rec = []
            if case["join"]:
                rec += [br[i][0], br[i][1] + (1 if case["one_based_starts"] else 0), br[i][2],
                        br[j][0], br[j][1] + (1 if case["one_based_starts"] else 0), br[j][2]]
            else:
                rec += [i + (1 if case["one_based_ids"] else 0), j + (1 if case["one_based_ids"] else 0)]
            rec.append(v)
            if case["balanced"]:
                rec.append(("f", v * W[i] * W[j]))
            rec += [_fmt_extra(ex[a][i]) for a in case["annotate"] or []]
            rec += [_fmt_extra(ex[a][j]) for a in case["annotate"] or []]
            want.append(rec)
        cols = (["chrom1", "start1", "end1", "chrom2", "start2", "end2"] if case["join"] else ["bin1_id", "bin2_id"]) + ["count"] \
            + (["balanced"] if case["balanced"] else []) + [a + s for s in ("1", "2") for a in (case["annotate"] or [])]
        lines = text.split("\n")
        check(lines[-1] == "", "dump output does not end with a newline") if text else None
        lines = [ln for ln in lines[:-1]] if text else []
        if case["header"] and lines:
            check(lines[0].split("\t") == cols, f"header {lines[0].split(chr(9))} want {cols}")
            check(lines.count(lines[0]) == 1 or not want, "header printed more than once")
            lines = lines[1:]
        check(len(lines) == len(want), lambda: f"dump printed {len(lines)} rows, the query holds {len(want)} (bbox {(i0, i1, j0, j1)}, filled={filled})")
        got = [ln.split("\t") for ln in lines]
        exact = case["float_format"] == ".17g"

        def same(g, w_):
            if len(g) != len(w_):
                return False
            for a, b in zip(g, w_):
                if isinstance(b, tuple):
                    if not _close(a, b[1], exact):
                        return False
                elif isinstance(b, float):
                    if not _close(a, b, exact):
                        return False
                elif a != str(b):
                    return False
            return True

        if filled:
            # order of filled output is engine-defined: compare as multisets on the integer key columns
            def key(fields):
                return tuple(str(x) for x in fields[: (6 if case["join"] else 2)])
            gs = sorted(got, key=key)
            ws = sorted(want, key=key)
            pairs = list(zip(gs, ws))
        else:
            pairs = list(zip(got, want))
        for g, w_ in pairs:
            check(same(g, w_), lambda: f"dump row {g} differs from the expected {[b[1] if isinstance(b, tuple) else b for b in w_]} "
                                       f"(options: {[a for a in args[2:]]})")
        # ---- second reference: the library query ---------------------------
        if not filled and not case["annotate"]:
            clr = cooler.Cooler(path)
            sel = clr.matrix(as_pixels=True, balance=bool(case["balanced"]), join=case["join"])
            lib = sel[i0:i1, j0:j1]
            check(len(lib) == len(got), "dump and matrix(as_pixels=True) list a different number of pixels")
            check(lib["count"].tolist() == [int(g[6 if case["join"] else 2]) for g in got], "dump and library query disagree on counts")
    finally:
        ctx.clean(d)
    nopt = sum(bool(case[k]) for k in ("fill_lower", "join", "balanced", "annotate", "one_based_ids", "one_based_starts", "header"))
    ctx.record(case, nopt >= 2 and case["range"] is not None and len(want) > 0,
               ["dump", "filled" if filled else "direct", "join" if case["join"] else "ids", "balanced" if case["balanced"] else "raw",
                "range2" if case["range2"] else "range" if case["range"] else "all", f"nopt={nopt}",
                "1-ids" if case["one_based_ids"] else "0-ids", "1-starts" if case["one_based_starts"] else "0-starts"])


def _fmt_extra(v):
    if isinstance(v, (np.floating, float)):
        return float(v)
    return int(v)


# -- chroms / bins tables --------------------------------------------------------

# -- every pair of bin-aligned row / column ranges on one chromosome --------------------------------

@st.composite
def window_cases(draw):
    k = draw(st.integers(3, 5))
    wdt = draw(st.integers(1, 6))
    symmetric = draw(st.sampled_from([True, True, False]))
    rows = []
    for i in range(k):
        for j in range(k):
            if (j >= i or not symmetric) and draw(st.integers(0, 3)) != 0:
                rows.append([i, j, draw(st.integers(1, 99))])
    return {"part": "windows", "k": k, "w": wdt, "symmetric": symmetric, "rows": rows, "join": draw(st.booleans()),
            "chunksize": draw(st.sampled_from([None, 1, 3]))}


def check_windows(case, ctx: Ctx):
    """`cooler dump -r R -r2 R2 [--fill-lower]` for ALL pairs of bin-aligned ranges of a chromosome (regions spelled in
    base pairs), against the model; rows compared as multisets."""
    from ..coolio import create_from_model

    k, wdt, symmetric, rows = case["k"], case["w"], case["symmetric"], case["rows"]
    bt = {"names": ["chrA", "chrB"], "edges": [[wdt * t for t in range(k + 1)], [0, wdt]], "kinds": ["fixed", "fixed"], "b": wdt}
    path = ctx.tmp(".cool")
    n_eval = n_nt = 0
    try:
        call("create", create_from_model, path, bt, rows, symmetric, h5opts={"compression": None})
        ranges = [(a, b) for a in range(k) for b in range(a + 1, k + 1)]
        flip = 0
        for (i0, i1) in ranges:
            for (j0, j1) in ranges:
                flip += 1
                fill = flip % 3 != 0
                args = ["dump", path, "-r", f"chrA:{i0 * wdt}-{i1 * wdt}", "-r2", f"chrA:{j0 * wdt}-{j1 * wdt}"]
                if fill:
                    args.append("--fill-lower")
                if case["join"]:
                    args.append("--join")
                if case["chunksize"]:
                    args += ["--chunksize", str(case["chunksize"])]
                rc, text, exc = run_cli(args)
                check(rc == 0 and exc is None, f"cooler {' '.join(args[2:])} failed: exit {rc} {exc!r}")
                want = []
                for i, j, v in rows:
                    if i0 <= i < i1 and j0 <= j < j1:
                        want.append((i, j, v))
                    if fill and symmetric and i != j and i0 <= j < i1 and j0 <= i < j1:
                        want.append((j, i, v))
                got = []
                for ln in text.split("\n"):
                    if not ln:
                        continue
                    f_ = ln.split("\t")
                    if case["join"]:
                        check(f_[0] == "chrA" and f_[3] == "chrA", f"dump --join row {ln!r} names another chromosome")
                        got.append((int(f_[1]) // wdt, int(f_[4]) // wdt, int(f_[6])))
                    else:
                        got.append((int(f_[0]), int(f_[1]), int(f_[2])))
                check(sorted(got) == sorted(want),
                      lambda: f"cooler {' '.join(args[2:])} (rows bins {i0}..{i1}, columns bins {j0}..{j1}, "
                              f"{'symmetric-upper' if symmetric else 'square'}) prints {sorted(got)}, the window holds {sorted(want)}")
                n_eval += 1
                if fill and symmetric and i0 < j1 and j0 < i1 and (i0, i1) != (j0, j1) and want:
                    n_nt += 1
    finally:
        ctx.clean(path)
    ctx.record(case, n_nt > 0, ["windows", "windows-sym" if symmetric else "windows-square", f"windows-k={k}"], n_eval=n_eval, n_nontrivial=n_nt)
    ctx.exhaustive_subdomains["dump: all pairs of bin-aligned (range, range2) on a chromosome of 3-5 bins"] = \
        ctx.exhaustive_subdomains.get("dump: all pairs of bin-aligned (range, range2) on a chromosome of 3-5 bins", 0) + 1


@st.composite
def table_cases(draw):
    bt = draw(gen.bin_tables(max_chroms=4, max_bins=4, max_width=7, scale=False))
    table = draw(st.sampled_from(["chroms", "bins"]))
    allc = ["name", "length"] if table == "chroms" else ["chrom", "start", "end", "gc", "mask"]
    cols = draw(st.one_of(st.none(), st.lists(st.sampled_from(allc), min_size=1, max_size=len(allc), unique=True)))
    return {"part": "table", "bt": bt, "table": table, "cols": cols, "header": draw(st.booleans())}


def check_table(case, ctx: Ctx):
    bt = case["bt"]
    n = gen.n_bins(bt)
    d = ctx.tmpdir()
    try:
        path = os.path.join(d, "in.cool")
        _make(ctx, dict(case, rows=[], symmetric=True, weights=None), path)
        args = ["dump", path, "-t", case["table"]]
        if case["cols"]:
            args += ["-c", ",".join(case["cols"])]
        if case["header"]:
            args.append("-H")
        rc, text, exc = run_cli(args)
        check(rc == 0 and exc is None, f"cooler dump -t {case['table']} failed: {exc!r}")
        ex = _extras(n)
        if case["table"] == "chroms":
            full = {"name": list(bt["names"]), "length": [e[-1] for e in bt["edges"]]}
        else:
            br = model.bins_rows(bt)
            full = {"chrom": [b[0] for b in br], "start": [b[1] for b in br], "end": [b[2] for b in br],
                    "gc": ex["gc"].tolist(), "mask": ex["mask"].tolist()}
        cols = case["cols"] or list(full.keys())
        lines = text.split("\n")[:-1]
        if case["header"]:
            check(lines[0].split("\t") == cols, f"header {lines[0]!r} want {cols}")
            lines = lines[1:]
        nrows = len(next(iter(full.values())))
        check(len(lines) == nrows, f"{len(lines)} rows printed, table has {nrows}")
        for t, ln in enumerate(lines):
            f_ = ln.split("\t")
            for c, a in zip(cols, f_):
                w_ = full[c][t]
                ok = _close(a, w_, False) if isinstance(w_, float) else a == str(w_)
                check(ok, f"dump -t {case['table']} row {t} column {c}: {a!r} want {w_!r}")
    finally:
        ctx.clean(d)
    ctx.record(case, case["cols"] is not None, ["table", "table=" + case["table"]])


# -- dump -> load round trip -----------------------------------------------------

@st.composite
def roundtrip_cases(draw):
    bt = draw(gen.bin_tables(max_chroms=3, max_bins=5, max_width=7, scale=False))
    n = gen.n_bins(bt)
    symmetric = draw(st.booleans())
    rows = draw(gen.pixels(n, symmetric, count=st.integers(1, 999), max_nnz=40))
    fmt = draw(st.sampled_from(["coo", "bg2"]))
    return {"part": "roundtrip", "bt": bt, "symmetric": symmetric, "rows": rows, "fmt": fmt,
            "one_based": draw(st.booleans()), "filled": symmetric and draw(st.booleans()),
            "bins_as": draw(st.sampled_from(["bed", "chromsizes"])), "dump_chunksize": draw(st.sampled_from([1, 3, 10**6])),
            "load_chunksize": draw(st.sampled_from([1, 2, 7, 10**6])), "header": False,
            # fan-in of the loader's merge step (None = option not given): more chunks than this means a two-pass merge
            "max_merge": draw(st.sampled_from([None, None, 2, 3, 5]))}


def check_roundtrip(case, ctx: Ctx):
    import cooler

    bt, rows, symmetric, fmt = case["bt"], case["rows"], case["symmetric"], case["fmt"]
    d = ctx.tmpdir()
    try:
        path = os.path.join(d, "in.cool")
        _make(ctx, dict(case, weights=None), path)
        txt = os.path.join(d, "dump.txt")
        args = ["dump", path, "-o", txt, "--chunksize", str(case["dump_chunksize"])]
        if fmt == "bg2":
            args.append("--join")
        if case["one_based"]:
            args.append("--one-based-ids" if fmt == "coo" else "--one-based-starts")
        if case["filled"]:
            args.append("--fill-lower")
        rc, _, exc = run_cli(args)
        check(rc == 0 and exc is None, f"dump failed: {exc!r}")
        bins_arg = c05._write_bins(d, bt, case["bins_as"])
        out = os.path.join(d, "re.cool")
        largs = ["load", "-f", fmt, bins_arg, txt, out, "--chunksize", str(case["load_chunksize"])]
        if case.get("max_merge"):
            largs += ["--max-merge", str(case["max_merge"])]
        if case["one_based"]:
            largs.append("--one-based")
        if not symmetric:
            largs.append("-N")
        if case["filled"]:
            largs += ["--input-copy-status", "duplex"]
        rc, _, exc = run_cli(largs)
        check(rc == 0 and exc is None, f"cooler {' '.join(largs[:3])} of a {'filled ' if case['filled'] else ''}dump failed: exit {rc} {exc!r}")
        clr = cooler.Cooler(out)
        df = clr.pixels()[:]
        got = [[a, b, c] for a, b, c in zip(df["bin1_id"].tolist(), df["bin2_id"].tolist(), df["count"].tolist())]
        check(got == [r[:3] for r in rows], lambda: f"re-imported {fmt} dump (one_based={case['one_based']}, filled={case['filled']}) differs: "
                                                    f"got {got[:6]} want {[r[:3] for r in rows][:6]}")
        check(model.read_bins(clr) == model.bins_rows(bt), "re-imported bin table differs")
        check(clr.storage_mode == ("symmetric-upper" if symmetric else "square"), "storage mode of the re-import")
    finally:
        ctx.clean(d)
    ctx.record(case, len(rows) >= 2 and (case["one_based"] or case["filled"]),
               ["roundtrip", "fmt=" + fmt, "one-based" if case["one_based"] else "zero-based", "filled" if case["filled"] else "stored",
                "sym" if symmetric else "square"])


# -- arbitrary column layouts ------------------------------------------------------

@st.composite
def layout_cases(draw):
    bt, recs = draw(c05.record_sets(max_records=10, allow_bad=False, allow_unlisted=True))
    route = draw(st.sampled_from(["pairs", "pairs", "bg2", "coo"]))
    ncols = draw(st.integers(8, 11))
    if route == "pairs":
        fields = ["chrom1", "pos1", "chrom2", "pos2", "x"]
    elif route == "bg2":
        fields = ["count", "x"]          # positional bg2 fields stay in columns 1-6
    else:
        fields = ["count", "x"]
    lo = {"pairs": 0, "bg2": 6, "coo": 2}[route]
    cols = draw(st.lists(st.integers(lo, ncols - 1), min_size=len(fields), max_size=len(fields), unique=True))
    return {"part": "layout", "bt": bt, "records": recs, "route": route, "ncols": ncols,
            "layout": dict(zip(fields, cols)), "square": draw(st.booleans()), "chunksize": draw(st.sampled_from([1, 3, 1000])),
            "field_order": list(draw(st.permutations(["x", "count"]))),
            "xvals": draw(st.lists(st.integers(1, 40), min_size=len(recs), max_size=len(recs))),
            "x_dtype": draw(st.sampled_from([None, "float", "int"])),
            # pre-binned routes: real-valued counts declared through the documented --field count=<n>:dtype=float64
            "count_float": draw(st.booleans())}


def check_layout(case, ctx: Ctx):
    import cooler

    bt, recs, route, lay = case["bt"], case["records"], case["route"], case["layout"]
    tril = None if case["square"] else "reflect"
    _, exp = c05.expected(bt, recs, tril)
    br = model.bins_rows(bt)
    names = bt["names"]
    d = ctx.tmpdir()
    try:
        bins_arg = c05._write_bins(d, bt, "bed")
        txt = os.path.join(d, "in.txt")
        want: dict = {}
        lines = []
        kept = []
        for r, xv in zip(recs, case["xvals"]):
            v = exp[r[6]]
            row = [f"junk{k}" for k in range(case["ncols"])]
            if route == "pairs":
                row[lay["chrom1"]], row[lay["pos1"]], row[lay["chrom2"]], row[lay["pos2"]] = str(r[0]), str(r[1] + 1), str(r[2]), str(r[3] + 1)
                row[lay["x"]] = str(xv)
                if v is not None:
                    want.setdefault(v[:2], []).append((1, xv))
            else:
                if v is None:
                    continue        # pre-binned formats cannot name unlisted chromosomes by id; skip those records
                b1, b2 = model.bin_of(bt, r[0], r[1]), model.bin_of(bt, r[2], r[3])
                if route == "coo":
                    row[0], row[1] = str(b1), str(b2)
                else:
                    row[0:6] = [br[b1][0], str(br[b1][1]), str(br[b1][2]), br[b2][0], str(br[b2][1]), str(br[b2][2])]
                cval = r[6] + 1 + (0.25 if case.get("count_float") else 0)
                row[lay["count"]], row[lay["x"]] = str(cval), str(xv)
                key = (min(b1, b2), max(b1, b2)) if tril == "reflect" else (b1, b2)
                want.setdefault(key, []).append((cval, xv))
            lines.append("\t".join(row))
            kept.append(r)
        with open(txt, "w") as f:
            f.write("\n".join(lines) + ("\n" if lines else ""))
        out = os.path.join(d, "out.cool")
        xspec = f"x={lay['x'] + 1}" + (f":dtype={case['x_dtype']}" if case["x_dtype"] else "")
        if route == "pairs":
            args = ["cload", "pairs", bins_arg, txt, out, "-c1", lay["chrom1"] + 1, "-p1", lay["pos1"] + 1,
                    "-c2", lay["chrom2"] + 1, "-p2", lay["pos2"] + 1, "--field", xspec, "--chunksize", case["chunksize"],
                    *(["--max-merge", 2] if case["chunksize"] == 1 and len(lines) % 2 else [])]
        else:
            # one record per chunk when a pixel repeats (dupcheck), see C05
            flat = [k for k, vs in want.items() for _ in vs]
            cs = 1 if len(flat) != len(set(flat)) else case["chunksize"]
            args = ["load", "-f", route, bins_arg, txt, out, "--chunksize", cs]
            for fld in case["field_order"]:
                args += ["--field", xspec if fld == "x" else f"count={lay['count'] + 1}" + (":dtype=float64" if case.get("count_float") else "")]
        if case["square"]:
            args.append("-N")
        rc, _, exc = run_cli(args)
        check(rc == 0 and exc is None, f"cooler {args[0]} {args[1]} with field layout {lay} (of {case['ncols']} columns) failed: exit {rc} {exc!r}")
        clr = cooler.Cooler(out)
        df = clr.pixels()[:]
        check("x" in df.columns and "count" in df.columns, f"columns stored: {list(df.columns)}")
        got = {(a, b): (c, x) for a, b, c, x in zip(df["bin1_id"].tolist(), df["bin2_id"].tolist(), df["count"].tolist(), df["x"].tolist())}
        wantagg = {k: (sum(c for c, _ in vs), sum(x for _, x in vs)) for k, vs in want.items()}
        check(got == wantagg, lambda: f"{route} with layout {lay}: pixels (count, x) {got} want {wantagg}")
        if route != "pairs":
            # a later load in the same process that relies on the format's DEFAULT columns is not affected by the
            # field numbers given to the earlier call
            plain = os.path.join(d, "plain.txt")
            nb = gen.n_bins(bt)
            with open(plain, "w") as f:
                if route == "coo":
                    f.write(f"0\t{nb - 1}\t7\n")
                else:
                    f.write(f"{br[0][0]}\t{br[0][1]}\t{br[0][2]}\t{br[nb - 1][0]}\t{br[nb - 1][1]}\t{br[nb - 1][2]}\t7\n")
            out2 = os.path.join(d, "plain.cool")
            rc, _, exc = run_cli(["load", "-f", route, bins_arg, plain, out2])
            check(rc == 0 and exc is None, f"a default-layout cooler load -f {route} after a --field load in the same process failed: exit {rc} {exc!r}")
            df2 = cooler.Cooler(out2).pixels()[:]
            got2 = list(zip(df2["bin1_id"].tolist(), df2["bin2_id"].tolist(), df2["count"].tolist()))
            check(got2 == [(0, nb - 1, 7)], lambda: f"default-layout load -f {route} after a --field load in the same process read {got2}, the file says [(0, {nb - 1}, 7)]")
    finally:
        ctx.clean(d)
    order = [lay[k] for k in (["chrom1", "pos1", "chrom2", "pos2", "x"] if route == "pairs" else
                              [f for f in case["field_order"]])]
    ctx.record(case, order != sorted(order) and len(kept) >= 1, ["layout", "route=" + route,
                                                                 "monotone" if order == sorted(order) else "non-monotone",
                                                                 "square" if case["square"] else "sym"])


CHECKS = {"windows": check_windows, "dump": check_dump, "table": check_table, "roundtrip": check_roundtrip, "layout": check_layout,
          "cli": c09.check_cli, "cli_load_c05": lambda case, ctx: c05.check_cli_load(dict(case, part="cli_load"), ctx),
          "tabix_c05": lambda case, ctx: c05.check_tabix(dict(case, part="tabix"), ctx)}


def replay(ctx: Ctx, case):
    CHECKS[case["part"]](case, ctx)


def run(ctx: Ctx):
    q = ctx.tier == "quick"
    parts = []
    parts.append(given_part(ctx, "dump", dump_cases(), check_dump, per_shard(ctx, 1600 if q else 40000), batch=50))
    parts.append(given_part(ctx, "table", table_cases(), check_table, per_shard(ctx, 240 if q else 4000), batch=30))
    parts.append(given_part(ctx, "roundtrip", roundtrip_cases(), check_roundtrip, per_shard(ctx, 320 if q else 8000), batch=20))
    parts.append(given_part(ctx, "layout", layout_cases(), check_layout, per_shard(ctx, 320 if q else 8000), batch=20))
    parts.append(given_part(ctx, "load-shifted", c05.cli_load_cases().filter(lambda c: c["shift"] > 0).map(lambda c: dict(c, part="cli_load_c05", bad=None)),
                     CHECKS["cli_load_c05"], per_shard(ctx, 96 if q else 2000), batch=12))
    parts.append(given_part(ctx, "zoomify-spec", c09.cli_cases(), c09.check_cli, per_shard(ctx, 24 if q else 400), batch=6))
    parts.append(given_part(ctx, "windows", window_cases(), check_windows, per_shard(ctx, 24 if q else 600), batch=3))
    # tabix-indexed pairs whose second mate is NOT in the default columns, through `cooler cload tabix -c2 -p2`
    parts.append(given_part(ctx, "tabix-layout", c05.tabix_cases().map(lambda c: dict(c, part="tabix_c05", bad_pos2=None, via="cli-p2" if c["via"] == "cli-p2" else "cli")),
              CHECKS["tabix_c05"], per_shard(ctx, 24 if q else 600), batch=6))
    run_parts(ctx, parts)
