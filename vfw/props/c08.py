"""C08 - coarsening by k is exact block aggregation within each chromosome."""
from __future__ import annotations

import os

import numpy as np
from hypothesis import strategies as st

from .. import gen, model, schema
from ..core import Ctx, Violation, call, check, per_shard, run_given

PID = "C08"
LEVEL = "exploration"
SHARDS = {"quick": 8, "thorough": 16}
BUDGET = {"quick": 80, "thorough": 840}
RULE = (
    "Case = generated cooler (every bin layout kind incl. variable and near-uniform, both storage modes, count + "
    "dyadic float column) x factor k in 2..(max bins per chromosome + 2) x chunksize in {1,2,3,7,nnz,1e6} x nproc "
    "(1; 2-3 in ~10% of cases, real process pool) x value columns and aggregation (sum; max on count) x history "
    "(single coarsen; coarsen k1 then k2 vs k1*k2; merge-then-coarsen vs coarsen-then-merge). Oracle: groups of k "
    "consecutive bins per chromosome, dict aggregate; plus the schema validator. Non-trivial = a chromosome whose "
    "bin count is not a multiple of k or < k, >=1 coarse pixel aggregating >=2 fine pixels, and chunksize < nnz. "
    "Distinct by sha1 of the canonical case."
    " CLI cases leave -c/-n to their defaults when the drawn value stands for 'not given'."
    " CLI without --append onto an existing file that holds another collection: the file is replaced."
    " Also: the non-decomposable aggregate 'mean' on the real-valued column (1e-12 relative); histories in which another variable-width segmentation of the SAME chromosomes is coarsened by the same factor afterwards in the same process."
)
ASSUMPTIONS = ["real worker pools are sampled, not scheduled (C08 'schedules' component, see DESIGN section 8)"]


@st.composite
def _other_segmentation(draw, bt):
    """Another variable-width bin table over the SAME chromosomes (names and lengths)."""
    edges = []
    for e in bt["edges"]:
        L = e[-1]
        cuts = draw(st.lists(st.integers(1, max(1, L - 1)), max_size=5, unique=True)) if L > 1 else []
        edges.append([0, *sorted(c for c in cuts if 0 < c < L), L])
    return {"names": list(bt["names"]), "edges": edges, "kinds": ["variable"] * len(edges), "b": bt.get("b")}


@st.composite
def cases(draw, max_chroms=3, max_bins=6):
    bt = draw(gen.bin_tables(max_chroms=max_chroms, max_bins=max_bins))
    hist = draw(st.sampled_from(["single", "single", "single", "chain", "merge-commute", "reuse-uri", "same-chroms"]))
    if hist == "same-chroms" and draw(st.booleans()):
        bt = draw(_other_segmentation(bt))      # both coolers of the history variable-width
    n = gen.n_bins(bt)
    symmetric = draw(st.booleans())
    rows = draw(gen.pixels(n, symmetric, count=st.integers(1, 1000), extra_cols=[gen.DYADIC], max_nnz=60))
    maxb = max(len(e) - 1 for e in bt["edges"])
    k = draw(st.integers(2, maxb + 2))
    nnz = len(rows)
    count_float = draw(st.integers(0, 4)) == 0
    if count_float:
        rows = [[r[0], r[1], r[2] + 0.25, *r[3:]] for r in rows]
    rows2 = draw(gen.pixels(n, symmetric, count=st.integers(1, 1000), extra_cols=[gen.DYADIC], max_nnz=30)) \
        if hist == "merge-commute" else None
    agg_x = draw(st.sampled_from(["sum", "sum", "max", "mean"]))
    cols = draw(st.sampled_from([None, None, ["count"], ["count", "x"]]))
    if agg_x == "mean":
        cols = ["count", "x"]       # the non-decomposable aggregate is only observable on a stored column
    return {"part": "coarsen", "bt": bt, "symmetric": symmetric, "rows": rows, "k": k,
            "chunksize": draw(st.sampled_from([1, 2, 3, 7, max(1, nnz), 10**6])),
            "nproc": draw(st.sampled_from([1] * 9 + [2, 3])),
            "cols": cols,
            "agg_count": draw(st.sampled_from(["sum", "sum", "sum", "max"])), "agg_x": agg_x,
            "history": hist, "k2": draw(st.integers(2, 4)), "rows2": rows2, "count_float": count_float,
            # reuse-uri: the SAME source URI is coarsened, re-created with another bin table and other pixels, and coarsened again
            "bt2": draw(gen.bin_tables(max_chroms=max_chroms, max_bins=max_bins)) if hist == "reuse-uri" else
                   draw(_other_segmentation(bt)) if hist == "same-chroms" else None,
            "dest": draw(st.sampled_from(["", "::/c", "same-file"])), "via": draw(st.sampled_from(["api", "api", "cli"]))}


def _same(got, want, aggs):
    if "mean" not in aggs:
        return got == want
    # the mean of exactly representable values: one correctly rounded division, compared with 1e-12 relative head-room
    return len(got) == len(want) and all(g[:2] == w_[:2] and all(abs(a_ - b_) <= 1e-12 * max(1.0, abs(b_)) for a_, b_ in zip(g[2:], w_[2:]))
                                         for g, w_ in zip(got, want))


def _read(clr, cols):
    df = clr.pixels()[:]
    data = [df[c].tolist() for c in cols]
    return [[a, b, *[d[t] for d in data]] for t, (a, b) in enumerate(zip(df["bin1_id"].tolist(), df["bin2_id"].tolist()))]


def _proj(rows, cols):
    idx = {"count": 2, "x": 3}
    return [[r[0], r[1], *[r[idx[c]] for c in cols]] for r in rows]


def check_coarsen(case, ctx: Ctx):
    import h5py

    import cooler

    from ..coolio import create_from_model

    bt, rows, symmetric, k = case["bt"], case["rows"], case["symmetric"], case["k"]
    cols = case["cols"] or ["count"]
    aggd = {"count": case["agg_count"], "x": case.get("agg_x", "sum")}
    aggs = tuple(aggd[c] for c in cols)
    work = ctx.tmpdir()
    try:
        base = os.path.join(work, "base.cool")
        call("create base", create_from_model, base, bt, rows, symmetric, cols=("count", "x"), h5opts={"compression": None},
             **({"dtypes": {"count": np.dtype("float64")}} if case.get("count_float") else {}))
        if case["dest"] == "same-file":
            out_uri = base + "::/coarse"
        else:
            out_uri = os.path.join(work, "out.cool") + case["dest"]
        kw = {}
        if case["cols"] is not None:
            kw["columns"] = list(case["cols"])
        if case["agg_count"] != "sum":
            kw["agg"] = {"count": case["agg_count"]}
        if "x" in cols and aggd["x"] != "sum":
            kw.setdefault("agg", {})["x"] = aggd["x"]
        preexisting = case.get("via") == "cli" and case["dest"] == "" and case["chunksize"] in (2, 7)
        if preexisting:
            # the output file already exists and holds another collection and an unrelated attribute: without --append the
            # command writes a NEW file ("overwriting the file")
            call("create the file that is in the way", create_from_model, out_uri + "::/old/keep", bt, rows[:1], symmetric, cols=("count", "x"))
            with h5py.File(out_uri, "r+") as f_:
                f_.attrs["unrelated"] = "x"
        if case.get("via") == "cli":
            from ..cliutil import run_cli

            args = ["coarsen", base, "-k", k, "-o", out_uri]
            # the largest chunk size stands for "option not given" (documented default: 10,000,000 pixels; one process)
            if case["chunksize"] != 10**6:
                args += ["-c", case["chunksize"]]
            if case["nproc"] != 1 or case["chunksize"] != 10**6:
                args += ["-n", case["nproc"]]
            if case["dest"] == "same-file":
                args.append("-a")
            if case["cols"] is not None or any(aggd[c] != "sum" for c in cols):
                for c in cols:
                    a = aggd[c]
                    args += ["--field", c + (f":agg={a}" if a != "sum" else "")]
            rc, _, exc = run_cli(args)
            check(rc == 0 and exc is None, f"cooler coarsen {args[2:]} failed: exit {rc} {exc!r}")
        else:
            call(f"coarsen_cooler(k={k}, chunksize={case['chunksize']}, nproc={case['nproc']})", cooler.coarsen_cooler,
                 base, out_uri, k, case["chunksize"], nproc=case["nproc"], h5opts={"compression": None}, **kw)
        if preexisting:
            from cooler.fileops import list_coolers

            left = list_coolers(out_uri)
            with h5py.File(out_uri, "r") as f_:
                stale = "unrelated" in f_.attrs
            check(left == ["/"] and not stale,
                  lambda: f"cooler coarsen -o FILE without --append on an existing file: the file still holds {left} and the old root attribute is {'still there' if stale else 'gone'}; write mode replaces the file")
        clr = cooler.Cooler(out_uri)
        want_bt = model.coarsen_bins(bt, k)
        got_bins = model.read_bins(clr)
        check(got_bins == model.bins_rows(want_bt),
              lambda: f"coarse bin table differs: got {got_bins[:8]} want {model.bins_rows(want_bt)[:8]}")
        want = model.coarsen_rows(bt, _proj(rows, cols), k, symmetric, aggs)
        stored = list(clr.pixels()[0:0].columns)
        check(stored == ["bin1_id", "bin2_id", *cols], f"coarse cooler stores columns {stored}, requested {cols}")
        got = _read(clr, cols)
        same = _same(got, want, aggs)
        check(same, lambda: f"coarse pixels differ (k={k}, chunksize={case['chunksize']}, agg {aggs}): got {got[:6]} want {want[:6]}")
        fpath, gpath = out_uri.split("::") if "::" in out_uri else (out_uri, "/")
        with h5py.File(fpath, "r") as f:
            probs = schema.validate(f[gpath], expect_count_sum=(case["agg_count"] == "sum"))
        check(not probs, lambda: f"coarse cooler violates the schema: {probs[:3]}")
        if case["agg_count"] == "sum" and "count" in cols:
            check(clr.info["sum"] == sum(r[2] for r in rows), "total not preserved by coarsening")
        check(clr.storage_mode == ("symmetric-upper" if symmetric else "square"), "storage mode not propagated")
        if case["dest"] == "same-file":
            check(_read(cooler.Cooler(base), ["count", "x"]) == rows, "base collection changed by coarsening into the same file")

        if case.get("count_float"):
            check(str(clr.pixels()[0:0]["count"].dtype) == "float64", f"real-valued count column coarsened into {clr.pixels()[0:0]['count'].dtype}")
        if case["history"] == "same-chroms":
            # second call in the process: ANOTHER segmentation of the same chromosomes, coarsened by the same factor
            bt2 = case["bt2"]
            n2 = gen.n_bins(bt2)
            seen_c = {}
            for r in rows:
                a_, b_ = min(r[0], n2 - 1), min(r[1], n2 - 1)
                key = (min(a_, b_), max(a_, b_)) if symmetric else (a_, b_)
                seen_c[key] = [key[0], key[1], r[2], r[3]]
            rows_c = [seen_c[k_] for k_ in sorted(seen_c)]
            other = os.path.join(work, "other.cool")
            call("create the other cooler", create_from_model, other, bt2, rows_c, symmetric, cols=("count", "x"), h5opts={"compression": None},
                 **({"dtypes": {"count": np.dtype("float64")}} if case.get("count_float") else {}))
            out3 = os.path.join(work, "other_coarse.cool")
            call("coarsen_cooler (other segmentation of the same chromosomes, same factor)", cooler.coarsen_cooler, other, out3, k, case["chunksize"], nproc=case["nproc"], **kw)
            c3 = cooler.Cooler(out3)
            got_b3 = model.read_bins(c3)
            check(got_b3 == model.bins_rows(model.coarsen_bins(bt2, k)),
                  lambda: f"coarsening another segmentation of the same chromosomes: bin table {got_b3[:8]}, want {model.bins_rows(model.coarsen_bins(bt2, k))[:8]}")
            want_c = model.coarsen_rows(bt2, _proj(rows_c, cols), k, symmetric, aggs)
            got_c = _read(c3, cols)
            check(_same(got_c, want_c, aggs), lambda: f"coarsening another segmentation of the same chromosomes differs: got {got_c[:6]} want {want_c[:6]}")
        if case["history"] == "reuse-uri":
            bt2 = case["bt2"]
            n2 = gen.n_bins(bt2)
            rows_b = [[min(r[0], n2 - 1), min(r[1], n2 - 1), r[2] + 1, r[3]] for r in rows]
            seen_b = {}
            for r in rows_b:
                key = (min(r[0], r[1]), max(r[0], r[1])) if symmetric else (r[0], r[1])
                seen_b[key] = [key[0], key[1], r[2], r[3]]
            rows_b = [seen_b[k_] for k_ in sorted(seen_b)]
            call("re-create the source URI", create_from_model, base, bt2, rows_b, symmetric, cols=("count", "x"), h5opts={"compression": None},
                 **({"dtypes": {"count": np.dtype("float64")}} if case.get("count_float") else {}))
            out2 = os.path.join(work, "again.cool")
            call("coarsen_cooler (same source URI, second time)", cooler.coarsen_cooler, base, out2, k, case["chunksize"], nproc=case["nproc"], **kw)
            c2 = cooler.Cooler(out2)
            check(model.read_bins(c2) == model.bins_rows(model.coarsen_bins(bt2, k)), "second coarsening of the re-created URI: bin table differs")
            want_b = model.coarsen_rows(bt2, _proj(rows_b, cols), k, symmetric, aggs)
            got_b = _read(c2, cols)
            check(_same(got_b, want_b, aggs), lambda: f"second coarsening of the re-created source URI differs: got {got_b[:6]} want {want_b[:6]}")
        if case["history"] == "chain" and case["agg_count"] == "sum" and aggd["x"] == "sum":
            k2 = case["k2"]
            o2 = os.path.join(work, "chain.cool")
            call("coarsen_cooler second step", cooler.coarsen_cooler, out_uri, o2, k2, case["chunksize"], **kw)
            o3 = os.path.join(work, "direct.cool")
            call("coarsen_cooler k1*k2", cooler.coarsen_cooler, base, o3, k * k2, case["chunksize"], **kw)
            a, b = cooler.Cooler(o2), cooler.Cooler(o3)
            want2 = model.coarsen_rows(bt, _proj(rows, cols), k * k2, symmetric, aggs)
            check(model.read_bins(b) == model.bins_rows(model.coarsen_bins(bt, k * k2)), "direct k1*k2 bin table differs")
            check(_read(b, cols) == want2, "direct coarsening by k1*k2 differs from the model")
            check(model.read_bins(a) == model.read_bins(b) and _read(a, cols) == _read(b, cols),
                  f"coarsen({k}) then coarsen({k2}) differs from coarsen({k * k2})")
        if case["history"] == "merge-commute" and case["agg_count"] == "sum" and aggd["x"] == "sum":
            other = os.path.join(work, "other.cool")
            call("create other", create_from_model, other, bt, case["rows2"], symmetric, cols=("count", "x"), h5opts={"compression": None})
            merged = os.path.join(work, "merged.cool")
            mkw = {"columns": ["count", "x"]}
            call("merge", cooler.merge_coolers, merged, [base, other], 1000, **mkw)
            cm = os.path.join(work, "coarse_of_merged.cool")
            call("coarsen(merge)", cooler.coarsen_cooler, merged, cm, k, case["chunksize"], columns=["count", "x"])
            co = os.path.join(work, "other_coarse.cool")
            call("coarsen(other)", cooler.coarsen_cooler, other, co, k, case["chunksize"], columns=["count", "x"])
            cb = os.path.join(work, "base_coarse.cool")
            call("coarsen(base)", cooler.coarsen_cooler, base, cb, k, case["chunksize"], columns=["count", "x"])
            mc = os.path.join(work, "merged_of_coarse.cool")
            call("merge(coarsen)", cooler.merge_coolers, mc, [cb, co], 1000, **mkw)
            l, r = _read(cooler.Cooler(cm), ["count", "x"]), _read(cooler.Cooler(mc), ["count", "x"])
            wantm = model.coarsen_rows(bt, model.merge_rows([rows, case["rows2"]], ("sum", "sum")), k, symmetric, ("sum", "sum"))
            check(l == wantm, "coarsen(merge(A,B)) differs from the model")
            check(l == r, "coarsening does not commute with merging")
    finally:
        ctx.clean(work)
    cmap = model.coarsen_map(bt, k)
    groups: dict = {}
    for r in rows:
        groups[(cmap[r[0]], cmap[r[1]])] = groups.get((cmap[r[0]], cmap[r[1]]), 0) + 1
    ragged = any((len(e) - 1) % k != 0 or (len(e) - 1) < k for e in bt["edges"])
    nt = ragged and any(v >= 2 for v in groups.values()) and case["chunksize"] < len(rows)
    ctx.record(case, nt, ["coarsen", "hist=" + case["history"], f"nproc={case['nproc']}", "kinds=" + "+".join(sorted(set(bt["kinds"]))),
                          "empty" if not rows else "nonempty", "sym" if symmetric else "square",
                          "k>chrom" if any((len(e) - 1) < k for e in bt["edges"]) else "k<=chrom",
                          "dest=" + (case["dest"] or "file"), "agg=" + case["agg_count"], "via=" + case.get("via", "api"),
                          "count-float" if case.get("count_float") else "count-int"])


CHECKS = {"coarsen": check_coarsen}


def replay(ctx: Ctx, case):
    CHECKS[case["part"]](case, ctx)


def run(ctx: Ctx):
    q = ctx.tier == "quick"
    if not run_given(ctx, "coarsen", cases(), check_coarsen, per_shard(ctx, 1000 if q else 30000), batch=50):
        return
    if not q:
        run_given(ctx, "coarsen-wide", cases(5, 12), check_coarsen, per_shard(ctx, 12000), batch=50)
