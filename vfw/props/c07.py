"""C07 - merging coolers is the exact element-wise aggregate of the inputs."""
from __future__ import annotations

import os

import numpy as np
from hypothesis import strategies as st

from .. import gen, model, schema
from ..core import Ctx, Violation, call, check, must_raise, per_shard, run_given, given_part, machine_part, run_parts

PID = "C07"
LEVEL = "exploration"
SHARDS = {"quick": 8, "thorough": 16}
BUDGET = {"quick": 80, "thorough": 840}
RULE = (
    "Merge cases: one bin table, k in 1..5 input coolers with supports disjoint/identical/overlapping/empty x "
    "mergebuf 1.. x input order x value columns and aggregation (sum/min/max on ints, sum on dyadic floats) x a "
    "and non-idempotent aggregates: pandas 'count', a user callable max-min) x a generated binary merge tree over the same leaves (nested merges, associative aggregates only) x dtypes int32/int64 inputs. Incompatible "
    "cases: different width, lengths, names, order, variable vs fixed, two different variable tables with equal "
    "lengths, symmetric vs square. Limit cases: int32 counts whose aggregate exceeds 2^31-1, an aggregation whose "
    "result is fractional on an integer column. Oracle: per-pixel aggregate over the inputs containing it. "
    "Non-trivial = k>=2 with >=1 pixel shared by two inputs and >=1 pixel unique to one. Distinct by sha1."
    ' Inputs may be groups of ONE file; the incompatible-pair grammar includes variable-width variants (storage mode, names) and an odd input without any pixel; CLI field specs with two columns in either order.'
)
ASSUMPTIONS = ["float value columns hold dyadic rationals (exact sums)"]


@st.composite
def merge_cases(draw, max_chroms=3, max_bins=5):
    bt = draw(gen.bin_tables(max_chroms=max_chroms, max_bins=max_bins))
    n = gen.n_bins(bt)
    symmetric = draw(st.booleans())
    k = draw(st.integers(1, 5))
    coords = draw(gen.pixel_coords(n, symmetric, max_nnz=40))
    support = draw(st.sampled_from(["overlapping", "overlapping", "identical", "disjoint", "with-empty"]))
    inputs = []
    count_dtypes = [draw(st.sampled_from(["int32", "int32", "int64", "float64"])) for _ in range(k)]
    # the extra value column: dyadic floats, or 64-bit integers far beyond 2**53 (a detour through float64 would show)
    x_kind = draw(st.sampled_from(["dyadic", "dyadic", "bigint"]))
    xval = gen.DYADIC if x_kind == "dyadic" else st.integers(2**57, 2**58).map(lambda v: v | 1)
    for t in range(k):
        if support == "identical" or not coords:
            sel = list(coords)
        elif support == "disjoint":
            sel = [c for u, c in enumerate(coords) if u % k == t]
        else:
            mask = draw(st.lists(st.booleans(), min_size=len(coords), max_size=len(coords)))
            sel = [c for c, m in zip(coords, mask) if m]
            if support == "with-empty" and t == draw(st.integers(0, k - 1)):
                sel = []
        cnt = {"int32": st.integers(1, 1000), "int64": st.one_of(st.integers(1, 1000), st.integers(2**31, 2**40)),
               "float64": gen.DYADIC.filter(lambda v: v > 0)}[count_dtypes[t]]
        vals = draw(st.lists(st.tuples(cnt, xval), min_size=len(sel), max_size=len(sel)))
        inputs.append([[c[0], c[1], v[0], v[1]] for c, v in zip(sel, vals)])
    # a wider output type requested for the merge: 32-bit inputs whose per-pixel sums only fit the requested 64-bit column
    if draw(st.integers(0, 5)) == 0:
        count_dtypes = ["int32"] * k
        inputs = [[[r[0], r[1], (r[2] if isinstance(r[2], int) else 7) % 1000 + 1, r[3]] for r in rows] for rows in inputs]
    out_dtype = draw(st.sampled_from([None, "int64", "int64"])) if all(d == "int32" for d in count_dtypes) else None
    if out_dtype:
        # the same pixels carry a value near the 32-bit limit in every input: any pixel shared by two inputs needs the wider column
        inputs = [[[r[0], r[1], r[2] + (2**31 - 1001 if (r[0] + r[1]) % 2 == 0 else 0), r[3]] for r in rows] for rows in inputs]
    cols = draw(st.sampled_from([None, None, ["count"], ["count", "x"], ["x"], ["count", "x"], ["x", "count"]]))
    agg_count = draw(st.sampled_from(["sum", "sum", "min", "max", "count", "range"]))
    agg_x = draw(st.sampled_from(["sum", "sum", "max"]))
    # a binary tree over the leaves, as a nested list of leaf indices
    leaves = list(range(k))
    perm = draw(st.permutations(leaves))
    tree: list = list(perm)
    while len(tree) > 2:
        a = draw(st.integers(0, len(tree) - 2))
        tree[a:a + 2] = [[tree[a], tree[a + 1]]]
    return {"part": "merge", "bt": bt, "symmetric": symmetric, "inputs": inputs, "cols": cols,
            "agg_count": agg_count, "agg_x": agg_x, "mergebuf": draw(st.sampled_from([1, 2, 3, 7, 50, 10**6])),
            "order": list(draw(st.permutations(leaves))), "tree": tree,
            "count_dtypes": count_dtypes, "via": draw(st.sampled_from(["api", "api", "cli"])),
            "support": support, "x_kind": x_kind, "out_dtype": out_dtype,
            # where the inputs live: one file each, or all as groups of ONE file (as the chunks of an unordered load do)
            "same_file": draw(st.integers(0, 3)) == 0}


def _make_inputs(ctx, case, work):
    from ..coolio import create_from_model

    uris = []
    for t, rows in enumerate(case["inputs"]):
        p = os.path.join(work, "ins.cool") + f"::/g{t}" if case.get("same_file") else os.path.join(work, f"in{t}.cool")
        call("create input", create_from_model, p, case["bt"], rows, case["symmetric"], cols=("count", "x"),
             dtypes={"count": np.dtype(case["count_dtypes"][t]), **({"x": np.dtype("int64")} if case.get("x_kind") == "bigint" else {})},
             h5opts={"compression": None},
             **({"mode": "a"} if case.get("same_file") else {}))
        uris.append(p)
    return uris


def _read(clr, cols):
    df = clr.pixels()[:]
    return [[a, b, *[df[c].tolist()[t] for c in cols]] for t, (a, b) in enumerate(zip(df["bin1_id"].tolist(), df["bin2_id"].tolist()))]


def check_merge(case, ctx: Ctx):
    import h5py

    import cooler

    bt, symmetric = case["bt"], case["symmetric"]
    cols = case["cols"] or ["count"]
    aggs = {"count": case["agg_count"], "x": case.get("agg_x", "sum")}
    work = ctx.tmpdir()
    try:
        uris = _make_inputs(ctx, case, work)
        out = os.path.join(work, "out.cool")
        kw = {}
        if case["cols"] is not None:
            kw["columns"] = list(case["cols"])
        if "count" in cols and case["agg_count"] != "sum":
            # 'count' = number of inputs holding the pixel; 'range' = a user callable (max - min): neither is idempotent
            kw["agg"] = {"count": (lambda s_: s_.max() - s_.min()) if case["agg_count"] == "range" else case["agg_count"]}
        if "x" in cols and aggs["x"] != "sum":
            kw.setdefault("agg", {})["x"] = aggs["x"]
        od = case.get("out_dtype") if "count" in cols and case["agg_count"] in ("sum", "max", "min") else None
        if od:
            kw["dtypes"] = {"count": np.dtype(od)}
        via = case.get("via", "api") if case["agg_count"] != "range" else "api"
        if via == "cli":
            from ..cliutil import run_cli

            args = ["merge", out, *[uris[t] for t in case["order"]], "-c", case["mergebuf"]]
            if case["cols"] is not None or any(aggs[c] != "sum" for c in cols):
                for c in cols:
                    a = aggs[c]
                    props = ([f"agg={a}"] if a != "sum" else []) + ([f"dtype={od}"] if od and c == "count" else [])
                    args += ["--field", c + (":" + ",".join(props) if props else "")]
            elif od:
                args += ["--field", f"count:dtype={od}"]
            rc, _, exc = run_cli(args)
            check(rc == 0 and exc is None, f"cooler merge ... {args[-4:]} failed: exit {rc} {exc!r}")
        else:
            call("merge_coolers", cooler.merge_coolers, out, [uris[t] for t in case["order"]], case["mergebuf"],
                 h5opts={"compression": None}, **kw)
        colidx = {"count": 0, "x": 1}
        proj = [[[r[0], r[1], *[r[2 + colidx[c]] for c in cols]] for r in rows] for rows in case["inputs"]]
        want = model.merge_rows(proj, tuple(aggs[c] for c in cols))
        clr = cooler.Cooler(out)
        got = _read(clr, cols)
        check(got == want, lambda: f"merged pixel table differs from the element-wise {[aggs[c] for c in cols]}: "
                                   f"got {got[:6]} want {want[:6]}")
        # the order in which value columns are listed is not part of the property (HDF5 lists members by name)
        check(sorted(clr.pixels()[:].columns) == sorted(["bin1_id", "bin2_id", *cols]),
              lambda: f"merged columns {list(clr.pixels()[:].columns)}, requested {cols}")
        with h5py.File(out, "r") as f:
            probs = schema.validate(f["/"], expect_count_sum=("count" in cols and case["agg_count"] == "sum"))
        check(not probs, lambda: f"merged cooler violates the schema: {probs[:3]}")
        if "count" in cols and case["agg_count"] == "sum":
            tot = sum(r[2] for rows in case["inputs"] for r in rows)
            check(clr.info["sum"] == tot, f"recorded total {clr.info['sum']} != sum of input totals {tot}")
            want_dt = od or str(np.result_type(*[np.dtype(d) for d in case["count_dtypes"]]))
            got_dt = str(clr.pixels()[0:0]["count"].dtype)
            check(got_dt == want_dt, f"merged count column stored as {got_dt}, the inputs' common type is {want_dt}")
        if "x" in cols and case.get("x_kind") == "bigint" and aggs["x"] in ("sum", "max"):
            got_xdt = str(clr.pixels()[0:0]["x"].dtype)
            check(got_xdt == "int64", f"merged column x stored as {got_xdt}; every input stores it as int64")
        check(model.read_bins(clr) == model.bins_rows(bt), "merged bin table differs")
        check(clr.storage_mode == ("symmetric-upper" if symmetric else "square"), "storage mode not propagated")

        # nested merges over the same leaves give the same table (associativity)
        if len(case["inputs"]) >= 3 and case["agg_count"] in ("sum", "min", "max"):
            counter = [0]

            def build(node):
                if isinstance(node, int):
                    return uris[node]
                parts = [build(x) for x in node]
                counter[0] += 1
                p = os.path.join(work, f"node{counter[0]}.cool")
                call("nested merge_coolers", cooler.merge_coolers, p, parts, case["mergebuf"],
                     h5opts={"compression": None}, **kw)
                return p

            top = build(case["tree"])
            got2 = _read(cooler.Cooler(top), cols)
            check(got2 == want, lambda: f"nested merge {case['tree']} differs from the flat merge: {got2[:6]} vs {want[:6]}")
    finally:
        ctx.clean(work)
    seen: dict = {}
    for rows in case["inputs"]:
        for r in rows:
            seen[(r[0], r[1])] = seen.get((r[0], r[1]), 0) + 1
    nt = len(case["inputs"]) >= 2 and any(v >= 2 for v in seen.values()) and any(v == 1 for v in seen.values())
    ctx.record(case, nt, ["merge", f"k={len(case['inputs'])}", "support=" + case["support"], "agg=" + case["agg_count"],
                          "cols=" + "+".join(cols), f"mergebuf={case['mergebuf']}", "sym" if symmetric else "square", "x=" + case.get("x_kind", "dyadic"), "out-dtype=" + str(case.get("out_dtype")), "via=" + case.get("via", "api"),
                          "all-empty" if not seen else "has-data"])


# ---------------------------------------------------------------------------
# incompatible inputs
# ---------------------------------------------------------------------------

@st.composite
def incompatible_cases(draw):
    kind = draw(st.sampled_from(["width", "lengths", "names", "order", "variable-vs-fixed", "two-variable",
                                 "storage-mode", "missing-column", "nbins", "storage-mode-variable", "names-variable"]))
    w = draw(st.integers(2, 9))
    L1, L2 = draw(st.integers(w + 1, 6 * w)), draw(st.integers(w + 1, 6 * w))
    A = model.binnify(["chr1", "chr2"], [L1, L2], w)
    symA = symB = True
    if kind == "width":
        B = model.binnify(["chr1", "chr2"], [L1, L2], w + draw(st.integers(1, 3)))
    elif kind == "lengths":
        B = model.binnify(["chr1", "chr2"], [L1, L2 + draw(st.integers(1, w))], w)
    elif kind == "names":
        B = model.binnify(["chr1", "chrB"], [L1, L2], w)
    elif kind == "order":
        if L1 == L2:
            L2 += 1
            A = model.binnify(["chr1", "chr2"], [L1, L2], w)
        B = model.binnify(["chr2", "chr1"], [L2, L1], w)
    elif kind == "variable-vs-fixed":
        e = A["edges"][0]
        if len(e) >= 3 and e[1] - e[0] >= 2:
            e2 = [e[0], e[1] - 1, *e[2:]]
        else:
            e2 = [0, 1, e[-1]] if e[-1] > 1 else [0, e[-1]]
        B = {"names": A["names"], "edges": [e2, A["edges"][1]]}
        if B["edges"] == A["edges"]:
            kind = "storage-mode"
            symB = False
    elif kind == "two-variable":
        cut1 = draw(st.integers(1, L1 - 1))
        cut2 = draw(st.integers(1, L1 - 1).filter(lambda c: c != cut1))
        A = {"names": ["chr1", "chr2"], "edges": [[0, cut1, L1], [0, L2]]}
        B = {"names": ["chr1", "chr2"], "edges": [[0, cut2, L1], [0, L2]]}
    elif kind == "storage-mode-variable":
        # same variable-width table, different storage modes
        cut1 = draw(st.integers(1, L1 - 1))
        A = {"names": ["chr1", "chr2"], "edges": [[0, cut1, L1], [0, L2]]}
        B = A
        symB = False
    elif kind == "names-variable":
        cut1 = draw(st.integers(1, L1 - 1))
        A = {"names": ["chr1", "chr2"], "edges": [[0, cut1, L1], [0, L2]]}
        B = {"names": ["chr1", "chrB"], "edges": [[0, cut1, L1], [0, L2]]}
    elif kind == "nbins":
        A = {"names": ["chr1"], "edges": [[0, 3, 9, 12]]}
        B = {"names": ["chr1"], "edges": [[0, 3, 5, 9, 12]]}
    else:
        B = A
        if kind == "storage-mode":
            symB = False
    return {"part": "incompatible", "kind": kind, "A": A, "B": B, "symA": symA, "symB": symB,
            "swap": draw(st.booleans()), "existing": draw(st.booleans()),
            "n_inputs": draw(st.integers(2, 4)), "pos": draw(st.integers(0, 3)),
            "same_file": draw(st.integers(0, 2)) == 0,
            # the odd one out holds no pixels at all: it contributes nothing, but its axes are still not the others' axes
            "empty_b": draw(st.integers(0, 2)) == 0}


def check_incompatible(case, ctx: Ctx):
    import cooler

    from ..coolio import create_from_model

    work = ctx.tmpdir()
    try:
        pa, pb = os.path.join(work, "a.cool"), os.path.join(work, "b.cool")
        mk = {}
        if case.get("same_file"):
            # both inputs are collections of one file
            pa, pb = os.path.join(work, "ab.cool::/a"), os.path.join(work, "ab.cool::/deeper/b")
            mk = {"mode": "a"}
        nA, nB = gen.n_bins(case["A"]), gen.n_bins(case["B"])
        rowsA = [[0, nA - 1, 3, 1.0]] if case["symA"] else [[nA - 1, 0, 3, 1.0]]
        rowsB = [] if case.get("empty_b") else [[0, nB - 1, 5, 2.0]]
        colsB = ("count",) if case["kind"] == "missing-column" else ("count", "x")
        call("create A", create_from_model, pa, case["A"], rowsA, case["symA"], cols=("count", "x"), **mk)
        call("create B", create_from_model, pb, case["B"], [r[: 2 + len(colsB)] for r in rowsB], case["symB"], cols=colsB, **mk)
        out = os.path.join(work, "out.cool")
        dest = out + ("::/m" if case["existing"] else "")
        if case["existing"]:
            # destination file already holds another collection; it must survive the refused merge
            call("create neighbour", create_from_model, out + "::/keep", case["A"], rowsA, case["symA"], cols=("count", "x"))
        m = case.get("n_inputs", 2)
        ins = [pa] * (m - 1)
        ins.insert(min(case.get("pos", 1 - int(case["swap"])), m - 1), pb)
        kw = {"columns": ["count", "x"]} if case["kind"] == "missing-column" else {}
        if case["existing"]:
            kw["mode"] = "a"
        must_raise(f"merge of incompatible coolers ({case['kind']})", cooler.merge_coolers, dest, ins, 1000, **kw)
        if os.path.exists(out):
            check(not call("is_cooler(dest)", cooler.fileops.is_cooler, dest), "a cooler exists at the destination after a refused merge")
            if case["existing"]:
                check(cooler.fileops.list_coolers(out) == ["/keep"], f"listing after refused merge: {cooler.fileops.list_coolers(out)}")
                k = cooler.Cooler(out + "::/keep")
                check(_read(k, ["count", "x"]) == rowsA, "neighbour collection changed by a refused merge")
    finally:
        ctx.clean(work)
    ctx.record(case, True, ["incompatible", "inc-" + case["kind"], "existing-file" if case["existing"] else "new-file",
                            "inc-inputs-in-one-file" if case.get("same_file") else "inc-inputs-in-own-files",
                            "inc-odd-input-empty" if case.get("empty_b") else "inc-odd-input-has-pixels",
                            f"inc-n={case.get('n_inputs', 2)}", f"inc-pos={min(case.get('pos', 0), case.get('n_inputs', 2) - 1)}"])


# ---------------------------------------------------------------------------
# limits of the value dtype
# ---------------------------------------------------------------------------

@st.composite
def limit_cases(draw):
    kind = draw(st.sampled_from(["overflow", "overflow", "fractional", "fits-exactly"]))
    k = draw(st.integers(2, 4))
    if kind == "overflow":
        vals = [draw(st.integers(2**30, 2**31 - 1)) for _ in range(k)]
        if sum(vals) <= 2**31 - 1:
            vals[0] = 2**31 - 1
        agg = "sum"
    elif kind == "fits-exactly":
        vals = [draw(st.integers(1, (2**31 - 1) // k)) for _ in range(k)]
        vals[0] += (2**31 - 1) - sum(vals)      # aggregate is exactly INT32_MAX
        agg = "sum"
    else:
        vals = [draw(st.integers(1, 1000)) for _ in range(k)]
        if sum(vals) % k == 0:
            vals[0] += 1
        agg = "mean"
    return {"part": "limit", "kind": kind, "vals": vals, "agg": agg, "mergebuf": draw(st.sampled_from([1, 1000]))}


def check_limit(case, ctx: Ctx):
    import cooler

    from ..coolio import create_from_model

    bt = {"names": ["c"], "edges": [[0, 10, 20, 30]]}
    work = ctx.tmpdir()
    try:
        uris = []
        for t, v in enumerate(case["vals"]):
            p = os.path.join(work, f"in{t}.cool")
            call("create input", create_from_model, p, bt, [[0, 1, v], [1, 2, 1]], True, dtypes={"count": np.dtype("int32")})
            uris.append(p)
        out = os.path.join(work, "out.cool")
        kw = {"agg": {"count": case["agg"]}} if case["agg"] != "sum" else {}
        exact = sum(case["vals"]) if case["agg"] == "sum" else sum(case["vals"]) / len(case["vals"])
        try:
            cooler.merge_coolers(out, uris, case["mergebuf"], **kw)
            raised = None
        except Exception as e:  # noqa: BLE001 - an error is the documented acceptable outcome
            raised = e
        if raised is None:
            clr = cooler.Cooler(out)
            df = clr.pixels()[:]
            stored = df["count"].tolist()[0]
            if stored != exact:
                ctx.known_finding("C07-silent-cast", case,
                                  f"{case['agg']} of {case['vals']} is {exact}, stored silently as {stored} ({df['count'].dtype})")
            if case["kind"] == "fits-exactly":
                check(stored == 2**31 - 1, f"aggregate INT32_MAX stored as {stored}")
        else:
            check(case["kind"] != "fits-exactly", f"an aggregate that fits int32 exactly was refused: {raised!r}")
    finally:
        ctx.clean(work)
    ctx.record(case, True, ["limit", "limit-" + case["kind"], "raised" if raised is not None else "stored"])


CHECKS = {"merge": check_merge, "incompatible": check_incompatible, "limit": check_limit}


def replay(ctx: Ctx, case):
    CHECKS[case["part"]](case, ctx)


def run(ctx: Ctx):
    q = ctx.tier == "quick"
    parts = []
    parts.append(given_part(ctx, "merge", merge_cases(), check_merge, per_shard(ctx, 640 if q else 24000), batch=40))
    parts.append(given_part(ctx, "incompatible", incompatible_cases(), check_incompatible, per_shard(ctx, 200 if q else 4000), batch=25))
    parts.append(given_part(ctx, "limit", limit_cases(), check_limit, per_shard(ctx, 80 if q else 1600), batch=20))
    if not q:
        parts.append(given_part(ctx, "merge-wide", merge_cases(5, 9), check_merge, per_shard(ctx, 12000), batch=40))
    run_parts(ctx, parts)
