"""C15 - file-level operations preserve content and touch nothing else (stateful)."""
from __future__ import annotations

import os

import numpy as np
from hypothesis import strategies as st

from .. import gen, model
from ..core import as_violation, Ctx, Violation, call, check, per_shard, run_given, run_machine, given_part, machine_part, run_parts

PID = "C15"
LEVEL = "exploration"
SHARDS = {"quick": 8, "thorough": 16}
BUDGET = {"quick": 85, "thorough": 840}
RULE = (
    "Histories: a Hypothesis RuleBasedStateMachine over two HDF5 files and the path pool {/, /a, /b, /g/c, /g/d, "
    "/x, /y/z}; rules create(mode a) at a free or occupied path, create(mode w), cp (same file / across files / "
    "root-to-root with overwrite), mv, ln hard / soft / external, URIs spelled with and without the leading "
    "slash, each operation through the Python API or the cooler cp/mv/ln command line; both files also carry an unrelated root attribute, group and dataset. The model is a per-file map "
    "path -> cooler content | soft link | external link, resolved by path at check time. After EVERY step, for "
    "both files: list_coolers = model paths in natural order; every listed path is_cooler and reads (bins, "
    "pixels, extra bin columns) as the model says; is_cooler is False - not an error - for the unrelated group, "
    "the dataset, a missing path and a missing file; unrelated attribute/group/dataset unchanged. Non-trivial = "
    ">=3 steps including a cross-file operation or a re-creation over an occupied path. Distinct by sha1 of the "
    "history."
    ' Each creation may give an assembly name and metadata; the metadata query of every collection must return what ITS creation gave (defaults otherwise) after every step, in particular after a re-creation at the root. A creation from a pixel stream that yields no chunk (two-step route, append mode) is refused or makes an empty collection - nothing else changes.'
    ' Creation inside histories also through `cooler load [--append]` (write mode drawn often); soft links whose source is itself a link; recognition probes and listings on files that contain dangling soft/external links (and paths below them).'
)
ASSUMPTIONS = [
    "histories stay well-defined: no link/move of the root, no removal or truncation of a link's target while the link exists, "
    "cp/mv/ln destinations unoccupied, sources are collections (not links), mv within one file (as documented)",
]

POOL = ["/", "/a", "/b", "/g/c", "/g/d", "/x", "/y/z"]


def _nat(s):
    import re

    return [(0, int(t), "") if t.isdigit() else (1, 0, t) for t in re.split(r"(\d+)", s) if t]


class World:
    def __init__(self, ctx: Ctx):
        self.ctx = ctx
        ctx.begin_case()       # scratch paths are recycled from history to history (core.Ctx.begin_case)
        self.dir = ctx.tmpdir()
        self.files = [os.path.join(self.dir, "f0.cool"), os.path.join(self.dir, "f1.cool")]
        self.entries: list[dict] = [{}, {}]          # path -> entry
        self.unrelated: list = [None, None]            # token or None
        self.contents: list[dict] = []
        self.history: list[dict] = []
        self.flags = {"cross": False, "recreate": False}

    def close(self):
        self.ctx.clean(self.dir)

    # -- model helpers -------------------------------------------------------
    def uri(self, fi, path, slash=True):
        if path == "/":
            return self.files[fi] if slash else self.files[fi] + "::/"
        return self.files[fi] + "::" + (path if slash else path.lstrip("/"))

    def resolve(self, fi, path, depth=0):
        e = self.entries[fi].get(path)
        if e is None or depth > 5:
            return None
        if e["kind"] == "cooler":
            return e["content"]
        if e["kind"] == "soft":
            return self.resolve(fi, e["target"], depth + 1)
        return self.resolve(e["file"], e["target"], depth + 1)

    def link_targets(self):
        t = set()
        for fi in (0, 1):
            for e in self.entries[fi].values():
                if e["kind"] == "soft":
                    t.add((fi, e["target"]))
                elif e["kind"] == "ext":
                    t.add((e["file"], e["target"]))
        return t

    def has_ext(self):
        return any(e["kind"] == "ext" for fi in (0, 1) for e in self.entries[fi].values())

    def has_links(self, fi):
        return any(e["kind"] != "cooler" for e in self.entries[fi].values())

    def _init_unrelated(self, fi):
        import h5py

        token = 100 + fi
        with h5py.File(self.files[fi], "r+") as f:
            f.attrs["note"] = f"unrelated-{token}"
            g = f.require_group("misc")
            g.attrs["k"] = token
            if "data" not in g:
                g.create_dataset("data", data=np.arange(5) + token)
        self.unrelated[fi] = token

    def _do(self, op, what, fn, cli_args, src, dst, **kw):
        """Run a file operation through the Python API or, when op['cli'] is set, through the command line."""
        if op.get("cli"):
            from ..cliutil import run_cli

            rc, _, exc = run_cli([*cli_args, src, dst])
            check(rc == 0 and exc is None, f"cooler {' '.join(cli_args)} ({what}) failed: exit {rc} {exc!r}")
        else:
            call(what, fn, src, dst, **kw)

    # -- operations ------------------------------------------------------------
    def apply(self, op):
        if self.ctx.shrink_expired():
            return      # shrink budget used up: remaining shrink attempts become no-ops (see core.run_given)
        self.history.append(op)
        try:
            ok = getattr(self, "op_" + op["op"])(op)
            if ok is False:
                self.history.pop()
                return
            self.check_all()
        except Violation as e:
            self.ctx.note_failure({"part": "history", "ops": self.history}, str(e))
            raise
        except Exception as e:  # noqa: BLE001
            v = as_violation(e)
            if v is None:
                raise
            self.ctx.note_failure({"part": "history", "ops": self.history}, str(v))
            raise v from e

    def op_create(self, op):
        import cooler

        from ..coolio import pixel_frame

        fi, path = op["file"], POOL[op["path"] % len(POOL)]
        mode = op["mode"]
        exists = os.path.exists(self.files[fi])
        if op.get("via") == "api-empty-stream":
            if not exists:
                return False
            mode = "a"          # the interesting case: other collections are in the file already
        ent = self.entries[fi].get(path)
        if ent is not None and ent["kind"] != "cooler":
            return False
        if mode == "w" or not exists:
            if self.has_ext() or self.has_links(fi):
                return False
            if any(f_ == fi for f_, _ in self.link_targets()):
                return False
        elif path != "/" and any(p != path and (p.startswith(path + "/") or path.startswith(p + "/")) and p != "/" for p in self.entries[fi]):
            return False
        bt, rows, sym = op["bt"], op["rows"], op["symmetric"]
        n = gen.n_bins(bt)
        extra = {"weight": np.arange(n, dtype=float) + op["tag"]} if op["with_weight"] else None
        if op.get("via") == "cli-load":
            # the same creation through `cooler load` (write mode unless --append is given)
            from ..cliutil import run_cli
            from . import c05

            d = self.ctx.tmpdir()
            try:
                bins_arg = c05._write_bins(d, bt, "bed")
                txt = os.path.join(d, "px.txt")
                with open(txt, "w") as f:
                    for r in rows:
                        f.write(f"{r[0]}\t{r[1]}\t{r[2]}\n")
                args = ["load", "-f", "coo", bins_arg, txt, self.uri(fi, path, op["slash"])]
                if not sym:
                    args.append("-N")
                if mode == "a" and exists:
                    args.append("--append")
                rc, _, exc = run_cli(args)
                check(rc == 0 and exc is None, f"cooler {' '.join(str(a) for a in args[:3])} ... {args[5:]} failed: exit {rc} {exc!r}")
            finally:
                self.ctx.clean(d)
            extra = None
            op = dict(op, with_weight=False)
        elif op.get("via") == "api-empty-stream":
            # a pixel stream that yields no chunk at all, through the two-step (sort-and-merge) route: refused, or an empty
            # collection - either way nothing else in the file may change (the invariants below run after every step)
            akw = {"assembly": op["assembly"]} if op.get("assembly") else {}
            try:
                cooler.create_cooler(self.uri(fi, path, op["slash"]), gen.bins_df(bt, extra=extra), iter([]), ordered=False,
                                     symmetric_upper=sym, mode=mode if exists else "w", h5opts={"compression": None}, **akw)
            except Exception:  # noqa: BLE001 - a refusal is acceptable; the model stays as it is and the invariants run
                if ent is not None:
                    return False    # (a refused RE-creation may legitimately have removed the old collection first: not judged)
                return None
            rows = []
            op = dict(op, rows=[])
        else:
            akw = {"assembly": op["assembly"]} if op.get("assembly") else {}
            if op.get("meta"):
                akw["metadata"] = {"tag": op["tag"], "who": "c15"}
            call(f"create_cooler(mode={mode!r}) at {path}", cooler.create_cooler, self.uri(fi, path, op["slash"]),
                 gen.bins_df(bt, extra=extra), pixel_frame(rows), ordered=True, symmetric_upper=sym,
                 mode=mode if exists else "w", h5opts={"compression": None}, **akw)
        content = {"bt": bt, "rows": rows, "symmetric": sym, "weight": op["tag"] if op["with_weight"] else None,
                   # what the metadata query must return: the values given at THIS creation, the documented defaults otherwise
                   "assembly": (op.get("assembly") or "unknown") if op.get("via") != "cli-load" else "unknown",
                   "metadata": {"tag": op["tag"], "who": "c15"} if op.get("meta") and op.get("via") in (None, "api") else {}}
        if mode == "w" or not exists:
            self.entries[fi] = {}
            self.unrelated[fi] = None
        if ent is not None and mode == "a" and exists:
            self.flags["recreate"] = True
        self.entries[fi][path] = {"kind": "cooler", "content": content}
        if self.unrelated[fi] is None and op["add_unrelated"]:
            self._init_unrelated(fi)

    def _src(self, op):
        fi = op["src_file"]
        cands = sorted(p for p, e in self.entries[fi].items() if e["kind"] == "cooler" and p != "/")
        if not cands:
            return None, None
        return fi, cands[op["src"] % len(cands)]

    def _free_dst(self, fi, k):
        free = [p for p in POOL if p != "/" and p not in self.entries[fi]
                and not any(q != "/" and (q.startswith(p + "/") or p.startswith(q + "/")) for q in self.entries[fi])]
        # "/g/c" style paths share the plain parent group "/g"; that is fine
        free += [p for p in ("/g/c", "/g/d") if p not in self.entries[fi] and p not in free]
        if not free:
            return None
        return sorted(set(free))[k % len(set(free))]

    def op_cp(self, op):
        from cooler.fileops import cp

        sf, sp = self._src(op)
        if sf is None:
            return False
        df = op["dst_file"]
        if not os.path.exists(self.files[df]):
            return False
        dp = self._free_dst(df, op["dst"])
        if dp is None:
            return False
        self._do(op, f"cp {sp} -> f{df}{dp}", cp, ["cp"], self.uri(sf, sp, op["slash"]), self.uri(df, dp, not op["slash"]))
        self.entries[df][dp] = {"kind": "cooler", "content": self.entries[sf][sp]["content"]}
        if sf != df:
            self.flags["cross"] = True

    def op_occupied(self, op):
        """cp / mv / ln onto a destination that already holds a collection (same file): the call must fail and
        neither the source nor the destination nor anything else may change."""
        from cooler import fileops

        sf, sp = self._src(op)
        if sf is None:
            return False
        others = sorted(p for p, e in self.entries[sf].items() if e["kind"] == "cooler" and p not in ("/", sp))
        if not others:
            return False
        dp = others[op["dst"] % len(others)]
        fn = {"cp": fileops.cp, "mv": fileops.mv, "ln": fileops.ln}[op["what"]]
        try:
            if op.get("cli"):
                from ..cliutil import run_cli

                rc, _, exc = run_cli([op["what"], self.uri(sf, sp, op["slash"]), self.uri(sf, dp, not op["slash"])])
                failed = rc != 0
            else:
                fn(self.uri(sf, sp, op["slash"]), self.uri(sf, dp, not op["slash"]))
                failed = False
        except Exception:  # noqa: BLE001 - refusal is the required outcome
            failed = True
        check(failed, f"{op['what']} {sp} -> {dp} onto an occupied destination was accepted")
        # the model is unchanged: check_all() verifies that nothing was harmed

    def op_cp_to_root(self, op):
        """cp <file>::<nested collection> <other file>  - the destination is the ROOT of the other file (which holds no
        root collection yet): the root-destination special case with a nested source."""
        from cooler.fileops import cp

        sf, sp = self._src(op)
        if sf is None:
            return False
        df = 1 - sf
        if "/" in self.entries[df] or any(p.split("/")[1] in ("chroms", "bins", "pixels", "indexes") for p in self.entries[df]):
            return False
        fresh = not os.path.exists(self.files[df])
        self._do(op, f"cp {sp} -> f{df} root", cp, ["cp"], self.uri(sf, sp, op["slash"]), self.uri(df, "/", not op["slash"]))
        if fresh:
            self.entries[df] = {}
            self.unrelated[df] = None
        self.entries[df]["/"] = {"kind": "cooler", "content": self.entries[sf][sp]["content"]}
        self.flags["cross"] = True

    def op_cp_root(self, op):
        """Whole-file copy: cp f::/ g::/ with overwrite (the root-destination special case)."""
        from cooler.fileops import cp

        sf = op["src_file"]
        df = 1 - sf
        if "/" not in self.entries[sf] or self.entries[sf]["/"]["kind"] != "cooler":
            return False
        if self.has_ext() or self.has_links(sf) or self.has_links(df) or any(f_ == df for f_, _ in self.link_targets()):
            return False
        self._do(op, "cp root -> other file root (overwrite)", cp, ["cp", "-w"], self.uri(sf, "/", op["slash"]), self.uri(df, "/", not op["slash"]), overwrite=True)
        self.entries[df] = {p: dict(e) for p, e in self.entries[sf].items()}
        self.unrelated[df] = self.unrelated[sf]
        self.flags["cross"] = True

    def op_mv(self, op):
        from cooler.fileops import mv

        sf, sp = self._src(dict(op, src_file=op["file"]))
        if sf is None or (sf, sp) in self.link_targets():
            return False
        dp = self._free_dst(sf, op["dst"])
        if dp is None:
            return False
        self._do(op, f"mv {sp} -> {dp}", mv, ["mv"], self.uri(sf, sp, op["slash"]), self.uri(sf, dp, not op["slash"]))
        self.entries[sf][dp] = self.entries[sf].pop(sp)

    def op_ln(self, op):
        from cooler.fileops import ln

        sf, sp = self._src(op)
        kind = op["kind"]
        if kind == "soft" and op.get("via_link"):
            # the source of the new soft link is itself a link (soft or external) that leads to a collection
            links = sorted(p for p, e in self.entries[op["src_file"]].items() if e["kind"] in ("soft", "ext"))
            if links:
                sf, sp = op["src_file"], links[op["src"] % len(links)]
        if sf is None:
            return False
        df = sf if kind in ("hard", "soft") else 1 - sf
        if not os.path.exists(self.files[df]):
            return False
        dp = self._free_dst(df, op["dst"])
        if dp is None:
            return False
        self._do(op, f"ln {kind} {sp} -> f{df}{dp}", ln, ["ln"] + (["-s"] if kind != "hard" else []),
                 self.uri(sf, sp, op["slash"]), self.uri(df, dp, not op["slash"]), soft=(kind != "hard"))
        if kind == "hard":
            self.entries[df][dp] = {"kind": "cooler", "content": self.entries[sf][sp]["content"]}
        elif kind == "soft":
            self.entries[df][dp] = {"kind": "soft", "target": sp}
        else:
            self.entries[df][dp] = {"kind": "ext", "file": sf, "target": sp}
            self.flags["cross"] = True

    # -- invariant ---------------------------------------------------------------
    def check_all(self):
        import h5py

        import cooler
        from cooler.fileops import is_cooler, list_coolers

        for fi in (0, 1):
            path = self.files[fi]
            if not os.path.exists(path):
                check(call("is_cooler(missing file)", is_cooler, path) is False, "is_cooler is not False for a missing file")
                continue
            listed = call(f"list_coolers(f{fi})", list_coolers, path)
            true_paths = sorted(self.entries[fi], key=_nat)
            if listed != true_paths:
                buggy = sorted([e["target"] if e["kind"] == "ext" else p for p, e in self.entries[fi].items()], key=_nat)
                if self.has_ext() and listed == buggy:
                    self.ctx.known_finding("C15-external-link-name", {"part": "history", "ops": self.history},
                                           f"listing {listed}, the file holds {true_paths}")
                else:
                    raise Violation(f"after {self.history[-1]['op']}: list_coolers(f{fi}) = {listed}, the file holds {true_paths}")
            if len(self.history) % 3 == 0:
                from ..cliutil import run_cli

                rc, out, exc = run_cli(["ls", path])
                check(rc == 0 and out.split("\n")[:-1] == [path + "::" + g for g in listed],
                      f"'cooler ls' prints {out.split()} but list_coolers gives {listed}")
            for p in true_paths:
                for slash in (True, False):
                    u = self.uri(fi, p, slash)
                    check(call(f"is_cooler({p})", is_cooler, u) is True, f"after {self.history[-1]['op']}: is_cooler(f{fi}::{p}) is not True")
                want = self.resolve(fi, p)
                clr = call(f"Cooler(f{fi}::{p})", cooler.Cooler, self.uri(fi, p))
                df = clr.pixels()[:]
                got = [[a, b, c] for a, b, c in zip(df["bin1_id"].tolist(), df["bin2_id"].tolist(), df["count"].tolist())]
                check(got == [r[:3] for r in want["rows"]],
                      lambda: f"after {self.history[-1]['op']}: f{fi}::{p} reads pixels {got[:5]}, the model holds {[r[:3] for r in want['rows']][:5]}")
                check(model.read_bins(clr) == model.bins_rows(want["bt"]), f"after {self.history[-1]['op']}: f{fi}::{p} bin table differs")
                inf = clr.info
                check(inf.get("nnz") == len(want["rows"]) and inf.get("nbins") == gen.n_bins(want["bt"]),
                      f"after {self.history[-1]['op']}: f{fi}::{p} attributes nnz/nbins = {inf.get('nnz')}/{inf.get('nbins')} belong to another collection")
                check(clr.storage_mode == ("symmetric-upper" if want["symmetric"] else "square"), f"f{fi}::{p} storage mode differs")
                if "assembly" in want:
                    check(inf.get("genome-assembly") == want["assembly"],
                          lambda: f"after {self.history[-1]['op']}: f{fi}::{p} reports assembly {inf.get('genome-assembly')!r}, the collection was created with {want['assembly']!r}")
                    check(inf.get("metadata") == want["metadata"],
                          lambda: f"after {self.history[-1]['op']}: f{fi}::{p} reports metadata {inf.get('metadata')!r}, the collection was created with {want['metadata']!r}")
                b = clr.bins()[0:0]
                if want["weight"] is None:
                    check("weight" not in b.columns, f"after {self.history[-1]['op']}: f{fi}::{p} still carries a 'weight' column of a replaced collection")
                else:
                    w = clr.bins()["weight"][:].to_numpy()
                    check(np.array_equal(w, np.arange(len(w), dtype=float) + want["weight"]), f"f{fi}::{p} weight column differs")
            for p in POOL + ["/nope", "/g", "/misc", "/misc/data", "/a/bins", "/a/bins/start"]:
                if p in self.entries[fi]:
                    continue
                if p in ("/g",) and not any(q.startswith("/g/") for q in self.entries[fi]):
                    continue
                r = call(f"is_cooler(f{fi}::{p})", is_cooler, self.uri(fi, p))
                check(r is False, f"after {self.history[-1]['op']}: is_cooler(f{fi}::{p}) = {r!r} for a path that holds no collection")
            if self.unrelated[fi] is not None:
                tok = self.unrelated[fi]
                with h5py.File(path, "r") as f:
                    check(f.attrs.get("note") == f"unrelated-{tok}", f"after {self.history[-1]['op']}: unrelated root attribute of f{fi} changed: {f.attrs.get('note')!r}")
                    check("misc" in f and int(f["misc"].attrs.get("k", -1)) == tok, f"after {self.history[-1]['op']}: unrelated group of f{fi} lost or changed")
                    check("data" in f["misc"] and np.array_equal(f["misc/data"][:], np.arange(5) + tok), f"unrelated dataset of f{fi} changed")
            else:
                with h5py.File(path, "r") as f:
                    check("misc" not in f and "note" not in f.attrs, f"after {self.history[-1]['op']}: f{fi} should have been replaced entirely but still holds old unrelated objects")


def _content():
    @st.composite
    def s(draw):
        bt = draw(gen.bin_tables(max_chroms=2, max_bins=3, max_width=5, scale=False))
        sym = draw(st.booleans())
        rows = draw(gen.pixels(gen.n_bins(bt), sym, count=st.integers(1, 99), max_nnz=8))
        return bt, sym, rows
    return s()


def make_machine(ctx: Ctx):
    from hypothesis.stateful import RuleBasedStateMachine, precondition, rule

    class FileOps(RuleBasedStateMachine):
        def __init__(self):
            super().__init__()
            self.w = World(ctx)
            self.tag = 0

        def teardown(self):
            w = self.w
            nt = len(w.history) >= 3 and (w.flags["cross"] or w.flags["recreate"])
            ctx.record({"part": "history", "ops": w.history}, nt,
                       ["history", f"steps={len(w.history)}", *sorted({"op-" + (o["op"] + ("-" + o["kind"] if o["op"] == "ln" else "") + ("-w" if o.get("mode") == "w" else "")) for o in w.history}),
                        "cross" if w.flags["cross"] else "no-cross", "recreate" if w.flags["recreate"] else "no-recreate"])
            w.close()

        @rule(c=_content(), file=st.integers(0, 1), path=st.integers(0, 6), mode=st.sampled_from(["a"] * 11 + ["w"]),
              with_weight=st.booleans(), slash=st.booleans(), add_unrelated=st.booleans(),
              via=st.sampled_from(["api", "api", "api", "cli-load", "api-empty-stream"]), wmode=st.sampled_from(["a", "w", "w"]),
              assembly=st.sampled_from([None, None, "hg19", "mm10"]), meta=st.booleans())
        def create(self, c, file, path, mode, with_weight, slash, add_unrelated, via, wmode, assembly, meta):
            bt, sym, rows = c
            self.tag += 1
            if via == "cli-load":
                mode = wmode        # the command line's default is write mode: drawn far more often than through the API
            self.w.apply({"op": "create", "bt": bt, "rows": rows, "symmetric": sym, "file": file, "path": path, "mode": mode,
                          "with_weight": with_weight, "tag": self.tag, "slash": slash, "add_unrelated": add_unrelated, "via": via,
                          "assembly": assembly, "meta": meta})

        @rule(src_file=st.integers(0, 1), src=st.integers(0, 9), dst_file=st.integers(0, 1), dst=st.integers(0, 9), slash=st.booleans(), cli=st.booleans())
        def cp(self, src_file, src, dst_file, dst, slash, cli):
            self.w.apply({"op": "cp", "src_file": src_file, "src": src, "dst_file": dst_file, "dst": dst, "slash": slash, "cli": cli})

        @rule(src_file=st.integers(0, 1), src=st.integers(0, 9), dst=st.integers(0, 9), what=st.sampled_from(["cp", "mv", "ln"]),
              slash=st.booleans(), cli=st.booleans())
        def occupied(self, src_file, src, dst, what, slash, cli):
            self.w.apply({"op": "occupied", "src_file": src_file, "src": src, "dst": dst, "what": what, "slash": slash, "cli": cli})

        @rule(src_file=st.integers(0, 1), src=st.integers(0, 9), slash=st.booleans(), cli=st.booleans())
        def cp_to_root(self, src_file, src, slash, cli):
            self.w.apply({"op": "cp_to_root", "src_file": src_file, "src": src, "slash": slash, "cli": cli})

        @rule(src_file=st.integers(0, 1), slash=st.booleans(), cli=st.booleans())
        def cp_root(self, src_file, slash, cli):
            self.w.apply({"op": "cp_root", "src_file": src_file, "slash": slash, "cli": cli})

        @rule(file=st.integers(0, 1), src=st.integers(0, 9), dst=st.integers(0, 9), slash=st.booleans(), cli=st.booleans())
        def mv(self, file, src, dst, slash, cli):
            self.w.apply({"op": "mv", "file": file, "src": src, "dst": dst, "slash": slash, "cli": cli})

        @rule(src_file=st.integers(0, 1), src=st.integers(0, 9), dst=st.integers(0, 9), kind=st.sampled_from(["hard", "soft", "ext"]), slash=st.booleans(), cli=st.booleans())
        def ln(self, src_file, src, dst, kind, slash, cli):
            self.w.apply({"op": "ln", "src_file": src_file, "src": src, "dst": dst, "kind": kind, "slash": slash, "cli": cli,
                          "via_link": (src + dst) % 2 == 0})

    return FileOps


def check_history(case, ctx: Ctx):
    w = World(ctx)
    try:
        for op in case["ops"]:
            w.history.append(op)
            if getattr(w, "op_" + op["op"])(op) is False:
                w.history.pop()
                continue
            w.check_all()
    finally:
        w.close()
    ctx.record(case, len(case["ops"]) >= 3, ["history-replay"])


# -- recognition test on arbitrary non-collection paths -----------------------------

@st.composite
def recog_cases(draw):
    return {"part": "recognition", "group": draw(st.sampled_from(["/", "/a", "/g/c"])),
            "probe": draw(st.sampled_from(["/zzz", "/a/b/c/d", "zzz", "/bins", "/bins/start", "/a/pixels", "/indexes/bin1_offset", "g", "/g",
                                           "/dsoft", "/dext", "/dsoft/x"])),
            "file_kind": draw(st.sampled_from(["cooler", "cooler", "plain-hdf5", "text", "missing"])),
            # the file also holds links that lead nowhere: a soft link to a missing object, an external link to a missing file
            "dangling": draw(st.booleans())}


def check_recognition(case, ctx: Ctx):
    import h5py

    from cooler.fileops import is_cooler

    from ..coolio import create_from_model

    d = ctx.tmpdir()
    try:
        p = os.path.join(d, "f.cool")
        bt = {"names": ["a"], "edges": [[0, 5, 10]], "kinds": ["fixed"]}
        if case["file_kind"] == "cooler":
            call("create", create_from_model, p if case["group"] == "/" else p + "::" + case["group"], bt, [[0, 1, 2]], True)
        elif case["file_kind"] == "plain-hdf5":
            with h5py.File(p, "w") as f:
                f.create_group("a").attrs["format"] = "something else"
                f.create_dataset("bins", data=np.arange(3))
        elif case["file_kind"] == "text":
            with open(p, "w") as f:
                f.write("not hdf5\n")
        if case.get("dangling") and case["file_kind"] in ("cooler", "plain-hdf5"):
            with h5py.File(p, "r+") as f:
                f["dsoft"] = h5py.SoftLink("/nowhere/at/all")
                f["dext"] = h5py.ExternalLink(os.path.join(d, "no-such-file.cool"), "/a")
            from cooler.fileops import list_coolers

            listed = call("list_coolers(file with dangling links)", list_coolers, p)
            want_l = [case["group"]] if case["file_kind"] == "cooler" else []
            check(listed == want_l, lambda: f"list_coolers of a file with dangling links = {listed}, the file holds {want_l}")
        uri = p + "::" + case["probe"]
        holds = case["file_kind"] == "cooler" and ("/" + case["probe"].lstrip("/")) == case["group"]
        r = call(f"is_cooler({case['file_kind']} file :: {case['probe']})", is_cooler, uri)
        check(r is holds, f"is_cooler({case['file_kind']} file with a collection at {case['group']} :: {case['probe']}) = {r!r}, expected {holds}")
    finally:
        ctx.clean(d)
    ctx.record(case, True, ["recognition", "file=" + case["file_kind"], "with-dangling-links" if case.get("dangling") else "no-dangling-links"])


CHECKS = {"history": check_history, "recognition": check_recognition}


def replay(ctx: Ctx, case):
    CHECKS[case["part"]](case, ctx)


def run(ctx: Ctx):
    q = ctx.tier == "quick"
    parts = []
    parts.append(given_part(ctx, "recognition", recog_cases(), check_recognition, per_shard(ctx, 400 if q else 4000), batch=50))
    parts.append(machine_part(ctx, "history", lambda: make_machine(ctx), per_shard(ctx, 320 if q else 6400), steps=24, batch=10))
    run_parts(ctx, parts)
