"""C19 - region and URI strings parse to exactly what they denote, or are refused."""
from __future__ import annotations

import glob
import json
import os
import shutil
import subprocess
import sys

from hypothesis import strategies as st

from ..core import VERIF, Ctx, Violation, call, check, must_raise, per_shard, run_enumerated, enumerated_part, run_given, given_part, machine_part, run_parts

PID = "C19"
LEVEL = "exploration"
SHARDS = {"quick": 8, "thorough": 16}
BUDGET = {"quick": 60, "thorough": 720}
RULE = (
    "Well-formed strings are built from a grammar (name x optional ':start-[end]' x numeral spelling of a "
    "generated integer N<=4e12: plain, comma-grouped, or N/10^{3u} with exactly the needed digits + unit "
    "k/kb/M/Mb/G/Gb in any case x blanks before tokens) together with the triple they denote (exact integer "
    "arithmetic); malformed strings come from one production per refusal named in the property; "
    "parse_region is driven with chromsizes tables; URIs with all slash spellings. Completely enumerated: "
    "every N in a range as 3-decimal 'k' numeral and strided 6-decimal 'M' numerals. Non-trivial = a "
    "unit-suffixed numeral with a non-zero fractional part, or a name containing '-', '.', ',' or a space. "
    "Distinct by the string itself."
)
ASSUMPTIONS = [
    "plain decimals without a unit are outside the claimed grammar (the tokenizer refuses them)",
    "blanks are generated before tokens and around the name only",
]

UNITS = {3: ["k", "kb", "K", "Kb", "KB", "kB"], 6: ["M", "Mb", "m", "mb", "MB"], 9: ["G", "Gb", "g", "GB", "gb"]}

NAME_CHARS = "abcdefghijklmnopqrstuvwxyzABCDEFGHIJKLMNOPQRSTUVWXYZ0123456789_.|-,+*#@!$%&()=[]{}<>/~^\\'\"`;?"


def names():
    inner = st.text(NAME_CHARS + "  ", min_size=0, max_size=10)
    edge = st.sampled_from(NAME_CHARS)
    rnd = st.builds(lambda a, m, z: (a + m + z).strip(), edge, inner, st.one_of(st.just(""), edge))
    pool = st.sampled_from(["chr1", "chrX", "2L", "GL000207.1", "name-with-hyphens", "gb|acc|locus",
                            "chr 1 alt", "1", "10", "HLA-A*01:01".replace(":", "."), "chr1_random", "1-2",
                            "3.5k", "5-10", "a,b", "µ", "染色体1"])
    return st.one_of(pool, rnd)


@st.composite
def numerals(draw, N: int):
    """A spelling of the integer N. Returns (text, has_nonzero_fraction)."""
    style = draw(st.sampled_from(["plain", "comma", "unit", "unit", "unit"]))
    if style == "plain":
        return str(N), False
    if style == "comma":
        return f"{N:,}", False
    u = draw(st.sampled_from([3, 6, 9]))
    digits = str(N).zfill(u + 1)
    ip, fp = digits[:-u], digits[-u:]
    fp_stripped = fp.rstrip("0")
    pad = draw(st.integers(0, len(fp) - len(fp_stripped)))
    extra = draw(st.sampled_from([0, 0, 0, 1, 3]))
    frac = fp_stripped + "0" * (pad + extra)
    if draw(st.booleans()) and len(ip) > 3:
        ip = f"{int(ip):,}"
    unit = draw(st.sampled_from(UNITS[u]))
    if frac:
        text = f"{ip}.{frac}{unit}"
    elif draw(st.booleans()):
        text = f"{ip}.{unit}"
    else:
        text = f"{ip}{unit}"
    return text, bool(fp_stripped)


COORDS = st.one_of(
    st.integers(0, 2000), st.integers(0, 4 * 10**12), st.integers(0, 10**7),
    st.integers(0, 4000).map(lambda k: k * 10**6 + 1), st.integers(0, 10**6).map(lambda k: k * 1000 + 999),
)
WS = st.sampled_from(["", "", "", " ", "  ", "\t"])


@st.composite
def wellformed(draw):
    name = draw(names())
    shape = draw(st.sampled_from(["bare", "closed", "closed", "open"]))
    lead, trail = draw(WS), draw(WS)
    if shape == "bare":
        return {"part": "wf", "s": f"{lead}{name}{trail}", "expect": [name, None, None], "nt": _nt_name(name)}
    a = draw(COORDS)
    sa, fa = draw(numerals(a))
    w1, w2, w3 = draw(WS), draw(WS), draw(WS)
    if shape == "open":
        s = f"{lead}{name}{trail}:{w1}{sa}{w2}-"
        return {"part": "wf", "s": s, "expect": [name, a, None], "nt": fa or _nt_name(name)}
    b = a + draw(st.one_of(st.just(0), st.integers(0, 10**6), st.integers(0, 10**10)))
    sb, fb = draw(numerals(b))
    s = f"{lead}{name}{trail}:{w1}{sa}{w2}-{w3}{sb}"
    return {"part": "wf", "s": s, "expect": [name, a, b], "nt": fa or fb or _nt_name(name)}


def _nt_name(name):
    return any(ch in name for ch in "-., ")


def check_wf(case, ctx: Ctx):
    from cooler.util import parse_region_string

    got = call(f"parse_region_string({case['s']!r})", parse_region_string, case["s"])
    check(list(got) == case["expect"] and all(g is None or type(g) is int for g in got[1:]),
          lambda: f"parse_region_string({case['s']!r}) = {got!r}, denotes {tuple(case['expect'])!r}")
    ctx.record(case, case["nt"], ["wf", "wf-open" if case["expect"][2] is None and case["expect"][1] is not None
                                  else "wf-bare" if case["expect"][1] is None else "wf-closed"], key=case["s"])


@st.composite
def humanized(draw):
    N = draw(COORDS)
    text, frac = draw(numerals(N))
    return {"part": "hum", "s": text, "expect": N, "nt": frac}


def check_hum(case, ctx: Ctx):
    from cooler.util import parse_humanized

    got = call(f"parse_humanized({case['s']!r})", parse_humanized, case["s"])
    check(type(got) is int and got == case["expect"],
          lambda: f"parse_humanized({case['s']!r}) = {got!r}, denotes {case['expect']}")
    ctx.record(case, case["nt"], ["hum"], key=case["s"])


@st.composite
def roundtrips(draw):
    name = draw(names())
    a = draw(COORDS)
    b = a + draw(st.integers(0, 10**9))
    return {"part": "rt", "name": name, "a": a, "b": b}


def check_rt(case, ctx: Ctx):
    from cooler.util import parse_region, parse_region_string

    c, a, b = case["name"], case["a"], case["b"]
    for s in (f"{c}:{a}-{b}", f"{c}:{a:,}-{b:,}"):
        got = call(f"parse_region_string({s!r})", parse_region_string, s)
        check(tuple(got) == (c, a, b), lambda: f"round trip {s!r} -> {got!r}")
        got = call(f"parse_region({s!r})", parse_region, s)
        check(tuple(got) == (c, a, b), lambda: f"parse_region round trip {s!r} -> {got!r}")
    ctx.record(case, _nt_name(c), ["rt"])


# -- malformed ----------------------------------------------------------------

@st.composite
def malformed(draw):
    name = draw(names())
    a = draw(st.integers(0, 10**7))
    b = a + draw(st.integers(0, 10**6))
    why = draw(st.sampled_from(["empty-name", "missing-hyphen", "negative", "non-numeric", "reversed",
                                "unknown-unit", "decimal-without-unit"]))
    if why == "empty-name":
        s = draw(st.sampled_from(["", " ", ":", f":{a}-{b}", f"  :{a}-{b}", f"\t:{a}-"]))
    elif why == "missing-hyphen":
        s = draw(st.sampled_from([f"{name}:{a}", f"{name}:{a} {b}", f"{name}:{a:,}", f"{name}:", f"{name}: "]))
    elif why == "negative":
        s = draw(st.sampled_from([f"{name}:-{a}-{b}", f"{name}:{a}--{b}", f"{name}:-{a}-", f"{name}:-{a + 1}--{a}"]))
    elif why == "non-numeric":
        junk = draw(st.sampled_from(["abc", "x1", "ten", "?", "k", "Mb", "_5", "#", "١٢"]))
        s = draw(st.sampled_from([f"{name}:{junk}-{b}", f"{name}:{a}-{junk}", f"{name}:{junk}-", f"{name}:{junk}"]))
    elif why == "reversed":
        lo = draw(st.integers(0, 10**7))
        hi = lo + draw(st.integers(1, 10**6))
        s = draw(st.sampled_from([f"{name}:{hi}-{lo}", f"{name}:{hi:,}-{lo:,}", f"{name}:{hi}kb-{lo}kb",
                                  f"{name}:{hi + 1}k-{hi}k", f"{name}:1M-{999999 - (lo % 999999)}"]))
    elif why == "unknown-unit":
        unit = draw(st.sampled_from(["x", "bp", "kbp", "T", "Tb", "mbp", "e3", "b", "kk", "k b"[:2].strip() + "z"]))
        s = draw(st.sampled_from([f"{name}:{a}{unit}-{b}{unit}", f"{name}:{a}-{b}{unit}", f"{name}:{a}{unit}-"]))
    else:
        s = draw(st.sampled_from([f"{name}:{a}.5-{b + 1}", f"{name}:{a}-{b}.25", f"{name}:{a}.0-"]))
    return {"part": "bad", "s": s, "why": why}


def check_bad(case, ctx: Ctx):
    from cooler.util import parse_region_string

    must_raise(f"malformed region {case['s']!r} ({case['why']})", parse_region_string, case["s"])
    ctx.record(case, True, ["bad", "bad-" + case["why"]], key="bad:" + case["s"])


# -- parse_region with a chromsizes table -----------------------------------

@st.composite
def regions(draw):
    nch = draw(st.integers(1, 4))
    nm = draw(st.lists(names(), min_size=nch, max_size=nch, unique=True))
    lens = [draw(st.one_of(st.integers(1, 100), st.integers(1, 2**31 - 1))) for _ in nm]
    cs = dict(zip(nm, lens))
    kind = draw(st.sampled_from(["ok", "ok", "ok", "beyond", "unknown", "reversed", "negative", "start-beyond-open", "neg-end-open-start"]))
    form = draw(st.sampled_from(["tuple", "string", "series"]))
    c = draw(st.sampled_from(nm))
    L = cs[c]
    if kind == "ok":
        a = draw(st.one_of(st.none(), st.integers(0, L)))
        b = draw(st.one_of(st.none(), st.integers(a or 0, L)))
        expect = [c, a or 0, L if b is None else b]
    elif kind == "beyond":
        a = draw(st.one_of(st.none(), st.integers(0, L)))
        b = L + draw(st.integers(1, 1000))
        expect = "error"
    elif kind == "unknown":
        c = draw(names().filter(lambda x: x not in cs))
        a, b = draw(st.one_of(st.none(), st.just(0))), draw(st.one_of(st.none(), st.just(1)))
        expect = "error"
    elif kind == "start-beyond-open":
        a, b = L + draw(st.integers(1, 2000)), None       # the default end (chromosome length) lies before the start
        expect = "error"
    elif kind == "neg-end-open-start":
        a, b = None, -draw(st.integers(1, 100))
        expect = "error"
        form = "tuple"
    elif kind == "reversed":
        b = draw(st.integers(0, max(0, L - 1)))
        a = b + draw(st.integers(1, 50))
        expect = "error"
    else:
        a, b = -draw(st.integers(1, 100)), draw(st.one_of(st.none(), st.integers(0, L)))
        expect = "error"
        form = "tuple"
    if form == "string":
        if a is None and b is None:
            reg = c
        elif a is None:
            reg = None  # "c:-b" is not a region string; fall back to tuple
        elif b is None:
            reg = f"{c}:{a:,}-"
        else:
            reg = f"{c}:{a}-{b:,}"
        if reg is None:
            form, reg = "tuple", [c, a, b]
    else:
        reg = [c, a, b]
    return {"part": "region", "chromsizes": cs, "order": nm, "reg": reg, "form": form, "expect": expect, "kind": kind}


def check_region(case, ctx: Ctx):
    import pandas as pd

    from cooler.util import parse_region

    cs = case["chromsizes"]
    table = pd.Series([cs[k] for k in case["order"]], index=case["order"]) if case["form"] == "series" else cs
    # the lengths in any integer type that holds them: a Series of a signed / unsigned / narrow type, or a dict of numpy scalars
    tdt = ["int64", "uint64", "uint32", "int32", "int64", "UInt64"][(len(str(case["reg"])) + len(cs)) % 6]
    if tdt != "int64" and max(cs.values()) < 2**31:
        if case["form"] == "series":
            table = table.astype(tdt)
        elif tdt != "UInt64":
            import numpy as np

            table = {k: np.dtype(tdt).type(v) for k, v in cs.items()}
    reg = case["reg"] if isinstance(case["reg"], str) else tuple(case["reg"])
    if case["expect"] == "error":
        must_raise(f"parse_region({reg!r}, {cs}) [{case['kind']}]", parse_region, reg, table)
    else:
        got = call(f"parse_region({reg!r})", parse_region, reg, table)
        check([got[0], int(got[1]), int(got[2])] == case["expect"],
              lambda: f"parse_region({reg!r}, {cs}) = {got!r}, want {case['expect']}")
    ctx.record(case, case["kind"] != "ok" or None in (case["reg"] if not isinstance(case["reg"], str) else []),
               ["region", "region-" + case["kind"], "region-" + case["form"], "lengths-" + (tdt if max(cs.values()) < 2**31 else "int64")])


# -- URIs -----------------------------------------------------------------

PATH_CHARS = "abcdefghijklmnopqrstuvwxyzABCDEFGHIJKLMNOPQRSTUVWXYZ0123456789_.-/ :"


@st.composite
def uris(draw):
    f = draw(st.one_of(st.sampled_from(["f.cool", "/a/b/c.mcool", "./x", "C:/data/x.cool", "a b.cool", "x:y.cool"]),
                       st.text(PATH_CHARS, min_size=1, max_size=12).filter(lambda s: "::" not in s and not s.endswith(":"))))
    g = draw(st.one_of(st.sampled_from(["", "/", "g/h", "/g/h", "resolutions/1000", "/cells/c1", "0", "a:b"]),
                       st.text(PATH_CHARS.replace(":", ""), min_size=0, max_size=10).filter(lambda s: not s.startswith(":"))))
    kind = draw(st.sampled_from(["plain", "with-group", "with-group", "double"]))
    if kind == "plain":
        return {"part": "uri", "s": f, "expect": [f, "/"]}
    if kind == "double":
        g2 = draw(st.sampled_from(["x", "/x", ""]))
        return {"part": "uri", "s": f"{f}::{g}::{g2}", "expect": "error"}
    if "::" in f + "::" + g and (f + "::" + g).count("::") != 1:
        return {"part": "uri", "s": f, "expect": [f, "/"]}
    return {"part": "uri", "s": f"{f}::{g}", "expect": [f, g if g.startswith("/") else "/" + g]}


def check_uri(case, ctx: Ctx):
    from cooler.util import parse_cooler_uri

    if case["expect"] == "error":
        must_raise(f"URI {case['s']!r}", parse_cooler_uri, case["s"])
    else:
        got = call(f"parse_cooler_uri({case['s']!r})", parse_cooler_uri, case["s"])
        check(list(got) == case["expect"], lambda: f"parse_cooler_uri({case['s']!r}) = {got!r} want {case['expect']}")
        f, g = case["expect"]
        for alt in (f"{f}::{g}", f"{f}::{g[1:]}"):
            if alt.count("::") == 1 and not g[1:].startswith("/"):
                got2 = call(f"parse_cooler_uri({alt!r})", parse_cooler_uri, alt)
                check(list(got2) == case["expect"], lambda: f"slash spelling {alt!r} -> {got2!r} want {case['expect']}")
    ctx.record(case, "::" in case["s"], ["uri", "uri-error" if case["expect"] == "error" else "uri-ok"], key="uri:" + case["s"])


# -- near-grammar strings decided by the independent reference classifier ----

MUT_ALPHABET = ":-., kKmMgGbB0123456789\tx,"


@st.composite
def mutated(draw):
    base = draw(st.one_of(wellformed(), malformed()))["s"]
    chars = list(base)
    for _ in range(draw(st.integers(1, 3))):
        op = draw(st.sampled_from(["ins", "del", "rep", "dup"]))
        pos = draw(st.integers(0, len(chars)))
        if op == "ins" or not chars:
            chars.insert(pos, draw(st.sampled_from(MUT_ALPHABET)))
        elif op == "del":
            del chars[min(pos, len(chars) - 1)]
        elif op == "rep":
            chars[min(pos, len(chars) - 1)] = draw(st.sampled_from(MUT_ALPHABET))
        else:
            p2 = min(pos, len(chars) - 1)
            chars.insert(p2, chars[p2])
    return {"part": "mut", "s": "".join(chars)}


def check_mut(case, ctx: Ctx):
    from ..fuzz.region_ref import classify, differential

    verdict = classify(case["s"])
    msg = differential(case["s"])
    if msg:
        raise Violation(msg)
    cls = "mut-ignored" if verdict is None else "mut-" + verdict[0]
    ctx.record(case, verdict is not None, ["mut", cls], key="mut:" + case["s"])


# -- enumerated numerals ---------------------------------------------------

def check_enum(case, ctx: Ctx):
    """case: {"part":"enum","unit":"k"|"M", "lo":..,"hi":..,"step":..}; walks the whole range."""
    from cooler.util import parse_humanized, parse_region_string

    u = 3 if case["unit"] == "k" else 6
    scale = 10**u
    n = nt = 0
    for N in range(case["lo"], case["hi"], case["step"]):
        text = f"{N // scale}.{N % scale:0{u}d}{case['unit']}"
        got = parse_humanized(text)
        if got != N:
            raise Violation(f"parse_humanized({text!r}) = {got}, denotes {N}")
        n += 1
        nt += 1 if N % scale else 0
    # a thin slice also through the full region grammar
    for N in range(case["lo"], case["hi"], max(case["step"], (case["hi"] - case["lo"]) // 200 or 1)):
        text = f"{N // scale}.{N % scale:0{u}d}{case['unit']}"
        s = f"chr1:{text}-{N + 1}"
        got = parse_region_string(s)
        if got != ("chr1", N, N + 1):
            raise Violation(f"parse_region_string({s!r}) = {got}, denotes ('chr1', {N}, {N + 1})")
        n += 1
    ctx.record(case, True, ["enum-" + case["unit"]], n_eval=n, n_nontrivial=nt,
               key=f"enum-{case['unit']}-{case['lo']}-{case['hi']}-{case['step']}")


def enum_cases(ctx: Ctx):
    q = ctx.tier == "quick"
    top_k = 2_000_000 if q else 20_000_000
    block = 50_000
    k = 0
    for lo in range(0, top_k, block):
        k += 1
        if k % ctx.nshards == ctx.shard:
            yield {"part": "enum", "unit": "k", "lo": lo, "hi": lo + block, "step": 1}
    # 6-decimal M numerals: N < 1e6*{1,10,100} on strides 1, 7, 61 (quick: coarser)
    for top, step in ((10**6, 1 if not q else 3), (10**7, 7 if not q else 37), (10**8, 61 if not q else 601)):
        for lo in range(0, top, top // 20):
            k += 1
            if k % ctx.nshards == ctx.shard:
                yield {"part": "enum", "unit": "M", "lo": lo, "hi": lo + top // 20, "step": step}
    ctx.exhaustive_subdomains[f"every N<{top_k} as 3-decimal k numeral"] = 0


# -- atheris (thorough) ----------------------------------------------------

def check_fuzzcase(case, ctx: Ctx):
    """Replay of a string found by the atheris target (differential vs reference classifier)."""
    from ..fuzz.region_ref import differential

    msg = differential(case["s"])
    if msg:
        raise Violation(msg)
    ctx.record(case, True, ["fuzz-replay"], key="fuzz:" + case["s"])


def run_atheris(ctx: Ctx, runs: int, max_seconds: int):
    from .. import deps

    if not deps.ensure("atheris", required=False):
        ctx.notes.append("atheris not installable offline here; fuzz part skipped")
        return True
    work = ctx.tmpdir()
    ok = True
    try:
        for variant in ("empty", "seeded", "hyp"):
            corpus = os.path.join(work, f"corpus-{variant}")
            os.makedirs(corpus)
            if variant == "seeded":
                for t, s in enumerate(["chr1:10-20", "chr5:10,100,000-30,000,000", "chrX:1.5M-2M", "2L:5kb-",
                                       "chr1", "chr1:10-1", "a b:1-2", "chr1:1.001k-2k"]):
                    with open(os.path.join(corpus, f"s{t}"), "w") as f:
                        f.write(s)
            crash_dir = os.path.join(work, f"crash-{variant}") + "/"
            os.makedirs(crash_dir)
            n_runs, max_len = (runs // 10, 512) if variant == "hyp" else (runs, 48)
            cmd = [sys.executable, "-m", "vfw.fuzz.region_fuzz", corpus, f"-runs={n_runs}",
                   f"-seed={ctx.seed * 1000 + ctx.shard + 1}", f"-max_len={max_len}", f"-max_total_time={max_seconds}",
                   f"-artifact_prefix={crash_dir}", "-print_final_stats=1"]
            env = dict(os.environ, VFW_FUZZ_MODE="hyp" if variant == "hyp" else "bytes", PYTHONPATH=os.pathsep.join([VERIF, deps.DEPS, os.environ.get("PYTHONPATH", "")]))
            r = subprocess.run(cmd, cwd=VERIF, env=env, capture_output=True, text=True, timeout=max_seconds + 120)
            execs = 0
            for line in r.stderr.splitlines():
                if line.startswith("stat::number_of_executed_units:"):
                    execs = int(line.split(":")[-1])
            crashes = sorted(glob.glob(crash_dir + "crash-*"))
            ctx.record({"part": "atheris", "variant": variant, "shard": ctx.shard, "execs": execs}, True,
                       ["atheris-" + variant], n_eval=max(execs, 1), n_nontrivial=1)
            if crashes:
                with open(crashes[0], "rb") as f:
                    raw = f.read()
                s = raw.decode("utf-8", "replace")
                if variant == "hyp":
                    # the bytes drive Hypothesis' generators; the failing string is printed by the target
                    for line in r.stderr.splitlines():
                        if line.startswith("VFW-FUZZ-STRING "):
                            s = json.loads(line[len("VFW-FUZZ-STRING "):])
                ctx.add_violation({"part": "fuzz", "s": s}, "atheris differential target failed: " + r.stderr[-600:])
                ok = False
                break
            if r.returncode != 0:
                ctx.notes.append(f"atheris exit {r.returncode}: {r.stderr[-300:]}")
    finally:
        shutil.rmtree(work, ignore_errors=True)
    return ok


CHECKS = {"wf": check_wf, "hum": check_hum, "rt": check_rt, "bad": check_bad, "region": check_region,
          "uri": check_uri, "enum": check_enum, "fuzz": check_fuzzcase, "mut": check_mut}


def replay(ctx: Ctx, case):
    CHECKS[case["part"]](case, ctx)


def run(ctx: Ctx):
    q = ctx.tier == "quick"
    parts = [enumerated_part(ctx, "enum", enum_cases(ctx), check_enum, every=1)]
    for part, strat, fn, nq, nt in (
        ("hum", humanized(), check_hum, 16000, 400000),
        ("wf", wellformed(), check_wf, 16000, 400000),
        ("bad", malformed(), check_bad, 6000, 100000),
        ("mut", mutated(), check_mut, 12000, 300000),
        ("rt", roundtrips(), check_rt, 4000, 60000),
        ("region", regions(), check_region, 6000, 100000),
        ("uri", uris(), check_uri, 4000, 60000),
    ):
        parts.append(given_part(ctx, part, strat, fn, per_shard(ctx, nq if q else nt), batch=500))
    if not run_parts(ctx, parts):
        return
    if not q:
        run_atheris(ctx, runs=400000, max_seconds=150)
