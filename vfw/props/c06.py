"""C06 - unordered ingestion equals aggregating all records in memory."""
from __future__ import annotations

import os

import numpy as np
from hypothesis import strategies as st

from .. import gen, model, schema
from ..core import Ctx, Violation, call, check, per_shard, run_given, given_part, machine_part, run_parts

PID = "C06"
LEVEL = "exploration"
SHARDS = {"quick": 8, "thorough": 16}
BUDGET = {"quick": 80, "thorough": 840}
RULE = (
    "Case = bin table x record multiset dealt into 1..9 chunks (a pixel may occur in several chunks; chunks may "
    "be empty; each chunk sorted and duplicate-free, or shuffled with ensure_sorted=True) x chunk order "
    "(generated permutation) x mergebuf in {1,2,3,5,10,1e6} x max_merge in {1,2,3,200} x storage mode x columns "
    "{count, count+x} x chunk form (DataFrame, dict) x temp_dir (default, explicit). Oracle: dict-sum of all "
    "records; plus the independent schema validator and a before/after listing of the temp directory. "
    "Non-trivial = >=2 non-empty chunks, >=1 pixel present in >=2 chunks, and (mergebuf < number of records in "
    "the fullest row, or more chunks than max_merge). Distinct by sha1 of the canonical case."
    " Also: value columns without 'count'; chunks of explicitly stored zeros; the chunk sequence as iterator, list or tuple; chunks that are consecutive overlapping slices of the sorted pixel list, delivered in order; optional input checks switched off; a `cooler load` part (text chunks of --chunksize lines, --mergebuf, --max-merge, --temp-dir listing); a 'fresh process' part that runs the first and second create_cooler(ordered=False) of a new interpreter in a subprocess."
)
ASSUMPTIONS = [
    "each chunk is free of duplicate pixels (dupcheck default) and upper-triangular in symmetric mode",
    "float value column holds dyadic rationals so that sums are exact in any order",
]


@st.composite
def cases(draw, max_chroms=3, max_bins=5, max_chunks=9):
    bt = draw(gen.bin_tables(max_chroms=max_chroms, max_bins=max_bins))
    n = gen.n_bins(bt)
    symmetric = draw(st.booleans())
    coords = draw(gen.pixel_coords(n, symmetric, max_nnz=40))
    k = draw(st.integers(1, max_chunks))
    count_dtype = draw(st.sampled_from(["int32", "int32", "float64", "int64"]))
    count_values = {"int32": st.integers(1, 50), "float64": gen.DYADIC.filter(lambda v: v != 0),
                    "int64": st.one_of(st.integers(1, 50), st.integers(2**31, 2**40))}[count_dtype]
    chunks = []
    for _ in range(k):
        kind = draw(st.sampled_from(["some", "some", "some", "all", "none", "zeros"]))
        if kind == "none" or not coords:
            chunks.append([])
            continue
        if kind == "all":
            sel = list(coords)
        else:
            mask = draw(st.lists(st.booleans(), min_size=len(coords), max_size=len(coords)))
            sel = [c for c, m in zip(coords, mask) if m]
        vals = draw(st.lists(st.tuples(count_values, gen.DYADIC), min_size=len(sel), max_size=len(sel)))
        if kind == "zeros":
            # a chunk of explicitly stored zeros (its counts add up to nothing; its pixels still exist)
            vals = [(0 if count_dtype != "float64" else 0.0, v[1]) for v in vals]
        chunks.append([[c[0], c[1], v[0], v[1]] for c, v in zip(sel, vals)])
    ensure_sorted = draw(st.booleans())
    return {"part": "unordered", "bt": bt, "symmetric": symmetric, "chunks": chunks,
            "order_seed": draw(st.integers(0, 2**16)),
            "shuffle_within": draw(st.sampled_from(["full", "within-rows", "none"])) if ensure_sorted else "none",
            "count_dtype": count_dtype,
            "ensure_sorted": ensure_sorted,
            "checks_off": draw(st.sampled_from([[], [], [], ["boundscheck", "triucheck", "dupcheck"], ["dupcheck"], ["boundscheck", "dupcheck"], ["triucheck"]])),
            "mergebuf": draw(st.sampled_from([1, 2, 3, 5, 10, 10**6])),
            "max_merge": draw(st.sampled_from([1, 2, 3, 200])),
            "cols": draw(st.sampled_from([["count"], ["count", "x"], ["x"]])),
            "form": draw(st.sampled_from(["frame", "dict"])),
            # the chunk sequence as a one-shot iterator, or as a list / tuple
            "container": draw(st.sampled_from(["iter", "iter", "list", "tuple"])),
            # chain: the chunks are consecutive slices of the sorted pixel list that OVERLAP by one pixel, delivered in order
            "chain": draw(st.integers(0, 5)) == 0,
            "temp": draw(st.sampled_from(["default", "default", "explicit"])),
            "dest": draw(st.sampled_from(["", "::/g"])),
            # extra bin columns must arrive in the output; row labels of the chunk frames carry no meaning (repeated
            # labels are what pd.concat of several tables without ignore_index leaves behind)
            "bins_extra": draw(st.sampled_from([None, None, "gc", "gc+mask"])),
            "index_kind": draw(st.sampled_from(["range", "range", "repeated", "reversed", "zeros"]))}


def check_unordered(case, ctx: Ctx):
    import h5py

    import cooler

    from ..coolio import pixel_frame

    bt, symmetric, cols = case["bt"], case["symmetric"], case["cols"]
    n = gen.n_bins(bt)
    rng = np.random.RandomState(case["order_seed"])
    chunks = [list(c) for c in case["chunks"]]
    order = rng.permutation(len(chunks)).tolist()
    chunks = [chunks[t] for t in order]
    if case.get("chain"):
        allrows = sorted({(r[0], r[1]): r for c in case["chunks"] for r in c}.values())
        k_ = max(1, len(case["chunks"]))
        step = max(1, len(allrows) // k_)
        chunks = [allrows[a:a + step + 1] for a in range(0, max(1, len(allrows) - 1), step)] if allrows else [[]]
        case = dict(case, chunks=chunks, shuffle_within="none")
    if case["shuffle_within"] in (True, "full"):
        chunks = [[c[t] for t in rng.permutation(len(c)).tolist()] for c in chunks]
    elif case["shuffle_within"] == "within-rows":
        # bin1_id stays non-decreasing, bin2_id is permuted inside every row
        chunks = [sorted(c, key=lambda r, keys={id(r): rng.rand() for r in c}: (r[0], keys[id(r)])) for c in chunks]

    cdt = case.get("count_dtype", "int32")

    def to_input(rs):
        df = pixel_frame(rs, ["count", "x"], {"count": "float64" if cdt == "float64" else "int64", "x": "float64"})
        ik = case.get("index_kind", "range")
        if ik == "repeated":
            df.index = np.arange(len(df)) % max(1, (len(df) + 1) // 2)
        elif ik == "reversed":
            df.index = np.arange(len(df))[::-1]
        elif ik == "zeros":
            df.index = np.zeros(len(df), dtype=int)
        return df if case["form"] == "frame" else {k: df[k].to_numpy() for k in df.columns}

    extra = None
    if case.get("bins_extra"):
        extra = {"gc": np.arange(n, dtype=float) / 8}
        if case["bins_extra"] == "gc+mask":
            extra["mask"] = (np.arange(n) % 3).astype("int8")

    work = ctx.tmpdir()
    tdir = work
    kw = {}
    if case["temp"] == "explicit":
        tdir = os.path.join(work, "tmp")
        os.makedirs(tdir)
        kw["temp_dir"] = tdir
    path = os.path.join(work, "out.cool")
    uri = path + case["dest"]
    if cols != ["count"]:
        kw["columns"] = list(cols)
    if cdt != "int32" and "count" in cols:
        kw["dtypes"] = {"count": np.dtype(cdt)}
    for flag in case.get("checks_off", []):
        if flag != "triucheck" or symmetric:
            kw[flag] = False
    try:
        before = sorted(os.listdir(tdir))
        call("create_cooler(ordered=False)", cooler.create_cooler, uri, gen.bins_df(bt, extra=extra),
             {"iter": iter, "list": list, "tuple": tuple}[case.get("container", "iter")]([to_input(c) for c in chunks]), ordered=False, symmetric_upper=symmetric,
             mergebuf=case["mergebuf"], max_merge=case["max_merge"], ensure_sorted=case["ensure_sorted"],
             h5opts={"compression": None}, **kw)
        after = sorted(x for x in os.listdir(tdir) if os.path.join(tdir, x) != path)
        check(after == [x for x in before if x != "out.cool"],
              lambda: f"temporary files outlive a successful run: {sorted(set(after) - set(before))}")
        want = model.merge_rows(case["chunks"], ("sum", "sum"))
        clr = call("Cooler", cooler.Cooler, uri)
        df = clr.pixels()[:]
        got_ids = list(zip(df["bin1_id"].tolist(), df["bin2_id"].tolist()))
        check(got_ids == [(r[0], r[1]) for r in want],
              lambda: f"pixel set differs from in-memory aggregation: got {got_ids[:8]} want {[(r[0], r[1]) for r in want][:8]}")
        if "count" in cols:
            check(str(df["count"].dtype) == cdt, f"count stored as {df['count'].dtype}, requested {cdt}")
            check(df["count"].tolist() == [r[2] for r in want],
                  lambda: f"counts differ: got {df['count'].tolist()[:8]} want {[r[2] for r in want][:8]}")
        else:
            check("count" not in df.columns, "unrequested column stored")
        if "x" in cols:
            check(df["x"].tolist() == [r[3] for r in want], "x column differs from the per-pixel sum")
        else:
            check("x" not in df.columns, "unrequested column stored")
        with h5py.File(path, "r") as f:
            probs = schema.validate(f["/g" if case["dest"] else "/"])
        check(not probs, lambda: f"output violates the schema: {probs[:3]}")
        if "count" in cols:
            check(clr.info["sum"] == sum(r[2] for r in want), f"sum attribute {clr.info['sum']}")
        check(model.read_bins(clr) == model.bins_rows(bt), "bin table of the output differs from the one given")
        bdf = clr.bins()[:]
        for k_, v_ in (extra or {}).items():
            check(k_ in bdf.columns and np.array_equal(bdf[k_].to_numpy(), v_) and bdf[k_].dtype == v_.dtype,
                  lambda: f"extra bin column {k_!r} of the given bin table is missing or changed in the output (columns {list(bdf.columns)})")
        check(set(bdf.columns) == {"chrom", "start", "end", *(extra or {})}, lambda: f"bin columns {list(bdf.columns)}")
    finally:
        ctx.clean(work)
    nonempty = [c for c in case["chunks"] if c]
    seen: dict = {}
    for c in nonempty:
        for r in c:
            seen[(r[0], r[1])] = seen.get((r[0], r[1]), 0) + 1
    rowload: dict = {}
    for c in nonempty:
        for r in c:
            rowload[r[0]] = rowload.get(r[0], 0) + 1
    nt = len(nonempty) >= 2 and any(v >= 2 for v in seen.values()) and \
        (case["mergebuf"] < max(rowload.values()) or len(case["chunks"]) > case["max_merge"])
    ctx.record(case, nt, ["unordered", f"chunks={min(len(case['chunks']), 5)}{'+' if len(case['chunks']) > 5 else ''}",
                          "two-pass" if len(case["chunks"]) > case["max_merge"] else "one-pass",
                          "all-empty" if not nonempty else "has-data",
                          "emptychunk" if len(nonempty) < len(case["chunks"]) else "no-emptychunk",
                          f"mergebuf={case['mergebuf']}", "sym" if symmetric else "square",
                          "ensure_sorted" if case["ensure_sorted"] else "presorted", "shuffle=" + str(case["shuffle_within"]),
                          "count=" + cdt, "bins-extra=" + str(case.get("bins_extra")), "cols=" + "+".join(cols), "container=" + case.get("container", "iter"), "chain" if case.get("chain") else "dealt", "labels=" + case.get("index_kind", "range"), "checks-off=" + ("+".join(case.get("checks_off", [])) or "none")])


def check_big(case, ctx: Ctx):
    """Unordered creation whose first chunk holds > 1e6 pixels, with a row starting exactly at pixel 1 000 000 of that
    chunk (the index builder works in blocks of 1e6 rows); the second chunk repeats part of that row."""
    import h5py
    import pandas as pd

    import cooler

    n, full_rows = 1250, 800                      # 800 * 1250 = 1_000_000
    i = np.repeat(np.arange(full_rows + 3), n)
    j = np.tile(np.arange(n), full_rows + 3)
    keep = (i < full_rows) | (j % 2 == 0)
    i, j = i[keep], j[keep]
    cnt = ((i * 5 + j) % 7 + 1).astype(np.int32)
    first = pd.DataFrame({"bin1_id": i, "bin2_id": j, "count": cnt})
    r = full_rows
    second = pd.DataFrame({"bin1_id": np.full(10, r), "bin2_id": np.arange(0, 20, 2), "count": np.full(10, 100, dtype=np.int32)})
    bins = pd.DataFrame({"chrom": ["c1"] * n, "start": np.arange(n) * 10, "end": np.arange(1, n + 1) * 10})
    d = ctx.tmpdir()
    try:
        out = os.path.join(d, "big.cool")
        call("create_cooler(unordered, >1e6 pixels)", cooler.create_cooler, out, bins, iter([first, second]), ordered=False,
             symmetric_upper=False, mergebuf=case.get("mergebuf", 400_000), h5opts={"compression": None})
        with h5py.File(out, "r") as f:
            probs = schema.validate(f["/"])
            check(not probs, lambda: f">1e6 unordered: {probs[:3]}")
            check(int(f.attrs["nnz"]) == len(first), f"nnz {f.attrs['nnz']} want {len(first)}")
        clr = cooler.Cooler(out)
        row = clr.matrix(balance=False, sparse=True)[r:r + 1, :].toarray()[0]
        want = np.zeros(n, dtype=np.int64)
        sel = i == r
        want[j[sel]] = cnt[sel]
        want[np.arange(0, 20, 2)] += 100
        check(np.array_equal(row, want), "the row starting at pixel 1 000 000 reads back differently (repeats not summed or row lost)")
        check(clr.info["sum"] == int(cnt.sum()) + 1000, "total differs")
    finally:
        ctx.clean(d)
    ctx.record(case, True, ["big"], n_eval=1)




# ---------------------------------------------------------------------------
# the same through `cooler load` (text chunks of --chunksize lines, --mergebuf, --max-merge, --temp-dir)
# ---------------------------------------------------------------------------

def check_cli(case, ctx: Ctx):
    import h5py

    import cooler

    from ..cliutil import run_cli

    bt, symmetric = case["bt"], case["symmetric"]
    recs = [r for c in case["chunks"] for r in c]
    keys = [(r[0], r[1]) for r in recs]
    # a pixel repeated inside one reader chunk is rejected by design: one line per chunk when anything repeats
    chunksize = 1 if len(set(keys)) != len(keys) else [1, 2, 3, 1000][case["order_seed"] % 4]
    work = ctx.tmpdir()
    try:
        bed = os.path.join(work, "bins.bed")
        with open(bed, "w") as f:
            for c, s_, e in model.bins_rows(bt):
                f.write(f"{c}\t{s_}\t{e}\n")
        txt = os.path.join(work, "px.txt")
        with open(txt, "w") as f:
            for r in recs:
                f.write(f"{r[0]}\t{r[1]}\t{r[2]}\n")
        out = os.path.join(work, "out.cool")
        args = ["load", "-f", "coo", bed, txt, out + case["dest"], "--chunksize", chunksize, "--mergebuf", case["mergebuf"],
                "--max-merge", max(case["max_merge"], 2)]
        tdir = work
        if case["temp"] == "explicit":
            tdir = os.path.join(work, "tmp")
            os.makedirs(tdir)
            args += ["--temp-dir", tdir]
        if not symmetric:
            args.append("-N")
        before = sorted(os.listdir(tdir))
        rc, _, exc = run_cli(args)
        check(rc == 0 and exc is None, f"cooler load --chunksize {chunksize} --mergebuf {case['mergebuf']} failed: exit {rc} {exc!r}")
        after = sorted(x for x in os.listdir(tdir) if x != "out.cool")
        check(after == before, lambda: f"temporary files outlive a successful cooler load: {sorted(set(after) - set(before))}")
        want = model.merge_rows([[r[:3] for r in c] for c in case["chunks"]], ("sum",))
        clr = cooler.Cooler(out + case["dest"])
        df = clr.pixels()[:]
        got = [[a, b, c] for a, b, c in zip(df["bin1_id"].tolist(), df["bin2_id"].tolist(), df["count"].tolist())]
        check(got == want, lambda: f"cooler load in chunks of {chunksize}: pixels {got[:6]} differ from the in-memory aggregation {want[:6]}")
        with h5py.File(out, "r") as f:
            probs = schema.validate(f["/g" if case["dest"] else "/"])
        check(not probs, lambda: f"output violates the schema: {probs[:3]}")
    finally:
        ctx.clean(work)
    nchunks = -(-len(recs) // chunksize) if recs else 0
    ctx.record(case, nchunks >= 2 and len(set(keys)) != len(keys), ["cli-load", f"cli-chunks={min(nchunks, 5)}", "cli-temp=" + case["temp"]])


# ---------------------------------------------------------------------------
# history "first call of a fresh process": nothing of cooler or dask has been imported before
# ---------------------------------------------------------------------------

_FRESH = r"""
import os, sys
sys.path.insert(0, sys.argv[1])
import pandas as pd
import cooler
d, n_calls = sys.argv[2], int(sys.argv[3])
bins = pd.DataFrame({"chrom": ["c"] * 4, "start": [0, 10, 20, 30], "end": [10, 20, 30, 40]})
chunks = [pd.DataFrame({"bin1_id": [0, 1], "bin2_id": [1, 2], "count": [1, 2]}),
          pd.DataFrame({"bin1_id": [0, 2], "bin2_id": [1, 3], "count": [5, 1]}),
          pd.DataFrame({"bin1_id": [1], "bin2_id": [2], "count": [4]})]
for k in range(n_calls):
    out = os.path.join(d, "o%d.cool" % k)
    before = set(os.listdir(d))
    cooler.create_cooler(out, bins, iter(chunks), ordered=False, max_merge=2 if k else 200)
    left = sorted(set(os.listdir(d)) - before - {"o%d.cool" % k})
    px = cooler.Cooler(out).pixels()[:]
    print("CALL", k, left, list(zip(px["bin1_id"].tolist(), px["bin2_id"].tolist(), px["count"].tolist())))
"""


def check_fresh(case, ctx: Ctx):
    import subprocess
    import sys

    d = ctx.tmpdir()
    try:
        src = os.path.join(os.environ.get("VERIF_REPO", "/repo"), "src")
        r = subprocess.run([sys.executable, "-c", _FRESH, src, d, str(case["calls"])], capture_output=True, text=True, timeout=300,
                           env={k: v for k, v in os.environ.items() if k != "PYTHONPATH"})
        check(r.returncode == 0, lambda: f"create_cooler(ordered=False) in a fresh process failed: {r.stderr[-300:]}")
        lines = [ln for ln in r.stdout.splitlines() if ln.startswith("CALL ")]
        check(len(lines) == case["calls"], f"fresh process reported {len(lines)} calls")
        want = "[(0, 1, 6), (1, 2, 6), (2, 3, 1)]"
        for ln in lines:
            _, k, rest = ln.split(" ", 2)
            left, got = rest.split("] [", 1)
            check(left + "]" == "[]", lambda: f"call {k} of a fresh process (nothing imported before): temporary files outlive the successful run: {left}]")
            check("[" + got == want, lambda: f"call {k} of a fresh process stored {'[' + got}, want {want}")
        after = sorted(x for x in os.listdir(d) if not (x.startswith("o") and x.endswith(".cool")))
        check(not after, lambda: f"after the fresh process ended the directory still holds {after}")
    finally:
        ctx.clean(d)
    ctx.record(case, True, ["fresh-process", f"fresh-calls={case['calls']}"])


CHECKS = {"fresh": check_fresh, "cli": check_cli, "unordered": check_unordered, "big": check_big}


def replay(ctx: Ctx, case):
    CHECKS[case["part"]](case, ctx)


def run(ctx: Ctx):
    q = ctx.tier == "quick"
    parts = []
    if ctx.shard == 0 or (not q and ctx.shard < 3):
        case = {"part": "big", "mergebuf": [400_000, 1_000_001, 50_000][ctx.shard % 3]}
        try:
            check_big(case, ctx)
        except Violation as e:
            ctx.add_violation(case, str(e))
            return
    if ctx.shard in (1, 2) or not q:
        case = {"part": "fresh", "calls": 1 + ctx.shard % 2}
        try:
            check_fresh(case, ctx)
        except Violation as e:
            ctx.add_violation(case, str(e))
            return
    parts.append(given_part(ctx, "unordered", cases(), check_unordered, per_shard(ctx, 950 if q else 36000), batch=50))
    cli = cases().filter(lambda c: c["count_dtype"] == "int32").map(lambda c: dict(c, part="cli"))
    parts.append(given_part(ctx, "cli-load", cli, check_cli, per_shard(ctx, 160 if q else 4000), batch=20))
    if not q:
        # larger tables and more chunks: more epochs per merge, more rows split across chunks
        parts.append(given_part(ctx, "unordered-wide", cases(5, 9, 16), check_unordered, per_shard(ctx, 12000), batch=50))
    run_parts(ctx, parts)
