"""C11 - balancing depends on the data only, not on chunking or scheduling."""
from __future__ import annotations

import numpy as np
from hypothesis import strategies as st

from .. import balmodel, gen, model
from ..core import Ctx, Violation, call, check, per_shard, run_given, given_part, machine_part, run_parts
from . import c10

PID = "C11"
LEVEL = "exploration"
SHARDS = {"quick": 8, "thorough": 16}
BUDGET = {"quick": 90, "thorough": 840}
RULE = (
    "Case = C10 matrix and option vector (nnz <= ~60 when chunksize < 4; ~3% empty coolers) x chunksize in "
    "{1,2,3,7,nnz-1,nnz,nnz+1,1e7,None} x map implementation owned by the harness: builtin, eager list, lazy "
    "generator, ADVERSARIAL (evaluates every key, yields the results in a generated permutation, a fresh one per "
    "pass) and - thorough tier, ~5%, sampled not scheduled - multiprocess.Pool map/imap/imap_unordered with 2..4 "
    "workers x a repeated run. Oracles: differential against the run with chunksize=None and the builtin map "
    "(same NaN set, weights rtol 1e-8, same converged, scale/var rtol 1e-8; runs whose variance sequence comes "
    "within 1e-6 relative of tol, or with a MAD cut-off tie, are 'tie' and only sanity-checked); the dense "
    "iterative-correction reference; a recording map wrapper checks that the spans of every pass, clipped to nnz, "
    "tile [0,nnz) (or one chromosome's pixel range in cis mode) exactly once; split(clr, chunksize=c) piped "
    "through an identity stage returns every stored pixel exactly once; the cooler balance command line (Pool.imap_unordered for -p > 1) stores the same weights as the library call, refuses to overwrite without --force, and store=True writes exactly what is returned. Non-trivial = >=2 spans and a "
    "non-identity completion order. Distinct by sha1 of the canonical case."
    ' Reported var/scale/converged are compared with the dense reference; two continuations derived from one stem pipeline; CLI: the first of two runs is stricter (--force must owe nothing to it), statistics stored as attributes of the weight column, --stdout output.'
)
ASSUMPTIONS = [
    "the harness owns the schedule through the map= parameter; timing of real worker pools is sampled only",
    "the dense reference uses the implementation's conventions for the two C10 known findings, which are reported here under their C11 keys",
]


@st.composite
def cases(draw, pools=False):
    small = draw(st.booleans())
    m = draw(c10.matrices(min_bins=4, max_bins=10 if small else 20, max_chroms=3))
    if draw(st.integers(0, 30)) == 0:
        m = dict(m, rows=[])
    o = draw(c10.options(m["n"], len(m["sizes"])))
    if "max_iters" not in o["omit"]:
        o["max_iters"] = min(o["max_iters"], 20 if small else 200)
    # real-valued contact matrices: every entry scaled by an exact dyadic factor (entries in (0,1) count as ONE non-zero each)
    cscale = draw(st.sampled_from([None, None, None, 0.015625, 0.25]))
    if cscale:
        m = dict(m, rows=[[r[0], r[1], r[2] * cscale] for r in m["rows"]])
        if o["min_count"]:
            o = dict(o, min_count=o["min_count"] * cscale)
    nnz = len(m["rows"])
    cs_pool = [3, 2, 1, 7, 5] if small else [7, 5, 13]
    chunksize = draw(st.sampled_from(cs_pool + cs_pool + [max(1, nnz - 1), max(1, nnz), nnz + 1, 10**7]))
    kinds = ["builtin", "eager", "lazy", "adversarial", "adversarial", "adversarial"]
    if pools and draw(st.integers(0, 19)) == 0:
        kinds = ["pool-map", "pool-imap", "pool-imap_unordered"]
    return {"part": "sched", **m, "opts": o, "chunksize": chunksize, "map": draw(st.sampled_from(kinds)),
            "perm_seed": draw(st.integers(0, 2**16)), "workers": draw(st.integers(2, 4)),
            # history: the Cooler object predates a re-creation of the collection (same bins, more pixels)
            "stale_object": draw(st.integers(0, 3)) == 0,
            # history: the same path first held (and was balanced as) a cooler with the same bins but other chromosome boundaries
            "prior_layout": draw(st.integers(0, 3)) == 0 and len(m["sizes"]) >= 2}


class RecordingMap:
    """A map functor that records the keys of every pass and controls the completion order."""

    def __init__(self, kind, seed, pool=None):
        self.kind, self.seed, self.pool = kind, seed, pool
        self.passes: list[list] = []
        self.permuted = False

    def __call__(self, fn, keys):
        keys = list(keys)
        self.passes.append([tuple(int(x) for x in k) for k in keys])
        if self.kind == "builtin":
            return map(fn, keys)
        if self.kind == "eager":
            return list(map(fn, keys))
        if self.kind == "lazy":
            return (fn(k) for k in keys)
        if self.kind == "adversarial":
            order = np.random.RandomState(self.seed + len(self.passes)).permutation(len(keys)).tolist()
            if order != sorted(order):
                self.permuted = True
            results = [fn(k) for k in keys]          # every key is evaluated ...

            def gen_():
                for t in order:                      # ... and completes in an adversarial order
                    yield results[t]
            return gen_()
        if self.kind == "pool-map":
            return self.pool.map(fn, keys)
        if self.kind == "pool-imap":
            return self.pool.imap(fn, keys)
        if self.kind == "pool-imap_unordered":
            self.permuted = True
            return self.pool.imap_unordered(fn, keys)
        raise ValueError(self.kind)


def _tiles(spans, nnz, allowed):
    """spans clipped to nnz must tile one of the allowed intervals exactly once."""
    clipped = sorted((min(a, nnz), min(b, nnz)) for a, b in spans)
    clipped = [s for s in clipped if s[1] > s[0]]
    if not clipped:
        return True
    for (a0, b0), (a1, b1) in zip(clipped[:-1], clipped[1:]):
        if b0 != a1:
            return False
    return (clipped[0][0], clipped[-1][1]) in allowed


def check_sched(case, ctx: Ctx):
    import cooler
    from cooler.parallel import split

    o = case["opts"]
    n, offsets = case["n"], case["offsets"]
    A = model.dense(case["rows"], n, True, 0)
    nnz = len(case["rows"])
    pool = None
    if case.get("stale_object") and nnz >= 2:
        from ..coolio import create_from_model

        path = c10.make_cooler(ctx, dict(case, rows=case["rows"][: nnz // 2]))
        clr = cooler.Cooler(path)
        _ = clr.matrix(balance=False, sparse=True)[:]
        _ = len(clr.pixels())
        edges_ = [[10 * k for k in range(s_ + 1)] for s_ in case["sizes"]]
        bt_ = {"names": [f"chr{t + 1}" for t in range(len(edges_))], "edges": edges_, "kinds": ["fixed"] * len(edges_)}
        call("re-create with the full matrix", create_from_model, path, bt_, case["rows"], True, dtypes=c10.count_dtypes(case), h5opts={"compression": None}, mode="a")
    elif case.get("prior_layout"):
        from ..coolio import create_from_model

        sizes2 = case["sizes"][::-1] if case["sizes"] != case["sizes"][::-1] else [case["n"]]
        path = c10.make_cooler(ctx, dict(case, sizes=sizes2))
        _ = call("balance_cooler (earlier collection at the same path)", c10.run_balance, cooler.Cooler(path),
                 dict(o, x0=None, blacklist=None, max_iters=2), chunksize=case["chunksize"])
        edges_ = [[10 * k for k in range(s_ + 1)] for s_ in case["sizes"]]
        bt_ = {"names": [f"chr{t + 1}" for t in range(len(edges_))], "edges": edges_, "kinds": ["fixed"] * len(edges_)}
        call("replace the collection at the same path", create_from_model, path, bt_, case["rows"], True, dtypes=c10.count_dtypes(case), h5opts={"compression": None})
        clr = cooler.Cooler(path)
    else:
        path = c10.make_cooler(ctx, case)
        clr = cooler.Cooler(path)
    try:
        base_w, base_stats = call("balance_cooler(chunksize=None)", c10.run_balance, clr, o, chunksize=None)
        base_w = np.asarray(base_w, dtype=float)
        dw, cw = c10.known_modes(case)
        ref = balmodel.ic_dense(A, offsets, o, diag_weight=dw, use_cweights=cw)
        _, mtie = balmodel.bin_masks(A, offsets, o, diag_weight=dw)
        tol = o["tol"]
        tie = bool(mtie.any()) or any(abs(v - tol) <= 1e-6 * tol for v in ref["variances"])
        # numerically diverging runs (no convergence, weights/variances overflowing) depend on the order of
        # floating-point operations: they are only sanity-checked, like ties
        fin_b = np.isfinite(base_w)
        if (fin_b.any() and np.any(np.abs(base_w[fin_b]) > 1e60)) or any((not np.isfinite(v)) or v > 1e100 for v in ref["variances"]) \
                or not np.all(np.isfinite(np.atleast_1d(np.asarray(base_stats["var"], dtype=float))) | np.isnan(np.atleast_1d(np.asarray(base_stats["var"], dtype=float)))):
            tie = True

        def same(w1, w2, what):
            n1, n2 = ~np.isfinite(w1), ~np.isfinite(w2)
            check(np.array_equal(n1, n2), lambda: f"{what}: NaN sets differ at bins {np.flatnonzero(n1 != n2)[:5].tolist()}")
            check(np.allclose(w1[~n1], w2[~n1], rtol=1e-8, atol=0),
                  lambda: f"{what}: weights differ, max rel {np.max(np.abs(w1[~n1] - w2[~n1]) / np.abs(w2[~n1])):.3g}")

        def same_stats(s1, s2, what):
            c1, c2 = np.atleast_1d(s1["converged"]), np.atleast_1d(s2["converged"])
            check(np.array_equal(c1, c2), f"{what}: converged {c1} vs {c2}")
            for key, rt in (("scale", 1e-8), ("var", 1e-6)):
                # (var is a variance of marginals that are nearly equal once the run converges: the subtraction cancels
                # ~8 digits, so two summation orders agree to 1e-6 relative at best - same tolerance as against the reference)
                a, b = np.atleast_1d(np.asarray(s1[key], dtype=float)), np.atleast_1d(np.asarray(s2[key], dtype=float))
                check(np.allclose(a, b, rtol=rt, atol=1e-300, equal_nan=True), f"{what}: {key} {a} vs {b}")

        if not tie:
            same(base_w, ref["weights"], "balance_cooler vs the dense iterative-correction reference")
            # ... and so do the reported statistics (per chromosome in cis-only mode)
            for key, rt in (("var", 1e-6), ("scale", 1e-8)):
                a = np.atleast_1d(np.asarray(base_stats[key], dtype=float))
                b = np.atleast_1d(np.asarray(ref[key], dtype=float))
                check(a.shape == b.shape and np.allclose(a, b, rtol=rt, atol=1e-9 * tol, equal_nan=True),
                      lambda: f"stats[{key!r}] = {a} but the dense iterative-correction reference gives {b}")
            check(np.array_equal(np.atleast_1d(base_stats["converged"]), np.atleast_1d(ref["converged"])),
                  lambda: f"stats['converged'] = {base_stats['converged']}, the reference run gives {ref['converged']} (var {ref['var']}, tol {tol})")
            true_ref = balmodel.ic_dense(A, offsets, o, 1, False) if (dw, cw) != (1, False) else ref
            if true_ref is not ref:
                w_t = true_ref["weights"]
                differs = not (np.array_equal(np.isfinite(w_t), np.isfinite(base_w)) and
                               np.allclose(w_t[np.isfinite(w_t)], base_w[np.isfinite(w_t)], rtol=1e-8, atol=0))
                if differs:
                    if dw == 2:
                        d_only = balmodel.ic_dense(A, offsets, o, 2, False)["weights"]
                        need_cw = cw and not (np.array_equal(np.isfinite(d_only), np.isfinite(base_w)) and
                                              np.allclose(d_only[np.isfinite(d_only)], base_w[np.isfinite(d_only)], rtol=1e-8, atol=0))
                        ctx.known_finding("C11-diag-twice", case, "weights coincide with the reference only when the diagonal is counted twice")
                        if need_cw:
                            ctx.known_finding("C11-trans-cweights", case, "weights coincide with the reference only with per-chromosome cweights")
                    elif cw:
                        ctx.known_finding("C11-trans-cweights", case, "weights coincide with the reference only with per-chromosome cweights")

        # ---- the variant run --------------------------------------------------
        kind = case["map"]
        if kind.startswith("pool"):
            import multiprocess as mp

            pool = mp.Pool(case["workers"])
        rec = RecordingMap(kind, case["perm_seed"], pool)
        w2, s2 = call(f"balance_cooler(chunksize={case['chunksize']}, map={kind})", c10.run_balance, clr, o,
                      chunksize=case["chunksize"], map=rec)
        w2 = np.asarray(w2, dtype=float)
        bo = np.searchsorted(np.array([r[0] for r in case["rows"]], dtype=int), np.arange(n + 1))
        allowed = {(0, nnz)} | ({(int(bo[lo]), int(bo[hi])) for lo, hi in zip(offsets[:-1], offsets[1:])} if o["cis_only"] else set())
        for t, spans in enumerate(rec.passes):
            check(_tiles(spans, nnz, allowed), lambda: f"pass {t}: spans {spans[:6]}.. do not tile the pixel range [0,{nnz}) exactly once (chunksize {case['chunksize']})")
        if not tie:
            same(w2, base_w, f"chunksize={case['chunksize']} map={kind} vs chunksize=None builtin map")
            same_stats(s2, base_stats, f"chunksize={case['chunksize']} map={kind} vs chunksize=None")
            rec2 = RecordingMap(kind, case["perm_seed"] + 7919, pool)
            w3, s3 = call("repeated run", c10.run_balance, clr, o, chunksize=case["chunksize"], map=rec2)
            same(np.asarray(w3, dtype=float), w2, "repeated run (other completion order)")
            same_stats(s3, s2, "repeated run")
        else:
            check(w2.shape == (n,), "weights shape")

        # ---- split-apply-combine visits every stored pixel exactly once -----------
        rec4 = RecordingMap("adversarial" if not kind.startswith("pool") else kind, case["perm_seed"] + 1, pool)
        parts = call("split().pipe(identity).gather()", lambda: split(clr, map=rec4, chunksize=case["chunksize"])
                     .pipe(lambda chunk: {k: np.array(v) for k, v in chunk["pixels"].items()}).gather())
        got = sorted((int(a), int(b), float(c)) for p in parts for a, b, c in zip(p["bin1_id"], p["bin2_id"], p["count"]))
        check(got == sorted((r[0], r[1], float(r[2])) for r in case["rows"]),
              lambda: f"split(chunksize={case['chunksize']}) returned {len(got)} pixel records, stored {nnz} (each must be visited exactly once)")
        # a split object is evaluated more than once: two pipes derived from it, and one pipe run twice
        sp = split(cooler.Cooler(path), map=RecordingMap("lazy", 0), chunksize=case["chunksize"])
        ident = (lambda chunk: len(chunk["pixels"]["bin1_id"]))
        p1, p2 = sp.pipe(ident), sp.pipe(ident)
        totals = call("two pipes derived from one split(), evaluated in turn",
                      lambda: [sum(p1.gather()), sum(p2.gather()), p1.reduce(lambda a, b: a + b, 0)])
        check(totals == [nnz, nnz, nnz], lambda: f"repeated evaluation of split(chunksize={case['chunksize']}) visited {totals} pixel records, stored {nnz}")
        # one stem, two different continuations ("pipe() returns a new datapipe"): record count and sum of counts
        stem = split(cooler.Cooler(path), map=RecordingMap("lazy", 0), chunksize=case["chunksize"]).pipe(lambda chunk: chunk["pixels"]["count"])
        q1, q2 = stem.pipe(np.size), stem.pipe(np.sum)
        res = call("two continuations of one stem pipeline",
                   lambda: [int(sum(q1.gather())), int(sum(q2.gather())), int(sum(len(x) for x in stem.gather())), int(sum(q1.gather()))])
        tot = int(sum(r[2] for r in case["rows"]))
        check(res == [nnz, tot, nnz, nnz],
              lambda: f"continuations of one stem over split(chunksize={case['chunksize']}): record count, sum of counts, stem records, record count again = {res}, stored {[nnz, tot, nnz, nnz]}")
    finally:
        if pool is not None:
            pool.terminate()
            pool.join()
        ctx.clean(path)
    nspans = max((len(p) for p in rec.passes), default=0)
    ctx.record(case, nspans >= 2 and rec.permuted, ["sched", "map=" + kind, "tie" if tie else "no-tie",
                                                    "spans>=2" if nspans >= 2 else "spans<2", "empty" if not nnz else "nonempty",
                                                    "mode=" + ("cis" if o["cis_only"] else "trans" if o["trans_only"] else "genome"),
                                                    "stale-object" if case.get("stale_object") else "fresh-object"])


# ---------------------------------------------------------------------------
# the command line (Pool.imap_unordered for nproc > 1) and the store= route
# ---------------------------------------------------------------------------

@st.composite
def cli_cases(draw):
    m = draw(c10.matrices(min_bins=4, max_bins=14, max_chroms=3))
    o = draw(c10.options(m["n"], len(m["sizes"])))
    o["omit"] = []          # this route passes every option explicitly
    o["x0"] = None
    o["rescale"] = True
    o["max_iters"] = min(o["max_iters"], 100)
    o["blacklist"] = None
    nnz = len(m["rows"])
    return {"part": "cli", **m, "opts": o, "nproc": draw(st.sampled_from([1, 2, 2, 3])),
            "chunksize": draw(st.sampled_from([2, 3, 7, max(1, nnz), 10**7])), "group": draw(st.sampled_from(["/", "/g"])),
            "name": draw(st.sampled_from(["weight", "w2"])), "twice": draw(st.booleans())}


def check_cli(case, ctx: Ctx):
    import cooler

    from ..cliutil import run_cli
    from ..coolio import create_from_model

    o = case["opts"]
    n, offsets = case["n"], case["offsets"]
    A = model.dense(case["rows"], n, True, 0)
    edges = [[10 * k for k in range(s + 1)] for s in case["sizes"]]
    bt = {"names": [f"chr{t + 1}" for t in range(len(edges))], "edges": edges, "kinds": ["fixed"] * len(edges)}
    path = ctx.tmp(".cool")
    uri = path if case["group"] == "/" else path + "::" + case["group"]
    try:
        call("create", create_from_model, uri, bt, case["rows"], True, dtypes=c10.count_dtypes(case), h5opts={"compression": None})
        clr = cooler.Cooler(uri)
        base_w, base_stats = call("balance_cooler(chunksize=None)", c10.run_balance, clr, o, chunksize=None)
        base_w = np.asarray(base_w, dtype=float)
        dw, cw = c10.known_modes(case)
        ref = balmodel.ic_dense(A, offsets, o, diag_weight=dw, use_cweights=cw)
        _, mtie = balmodel.bin_masks(A, offsets, o, diag_weight=dw)
        tie = bool(mtie.any()) or any(abs(v - o["tol"]) <= 1e-6 * o["tol"] for v in ref["variances"])
        args = ["balance", uri, "-p", case["nproc"], "-c", case["chunksize"], "--ignore-diags", o["ignore_diags"],
                "--mad-max", o["mad_max"], "--min-nnz", o["min_nnz"], "--min-count", o["min_count"], "--tol", repr(o["tol"]),
                "--max-iters", o["max_iters"], "--name", case["name"]]
        if o["cis_only"]:
            args.append("--cis-only")
        if o["trans_only"]:
            args.append("--trans-only")
        first = list(args)
        if case["twice"]:
            # the column that --force later replaces comes from a STRICTER run (more bins masked): nothing of it may
            # survive into the forced run
            first[first.index("--min-nnz") + 1] = o["min_nnz"] + 4
            first[first.index("--mad-max") + 1] = 1
        rc, _, exc = run_cli(first)
        check(rc == 0 and exc is None, f"cooler balance {first[2:]} failed: exit {rc} {exc!r}")
        if case["twice"]:
            rc2, _, _ = run_cli(args)
            check(rc2 != 0, "a second 'cooler balance' without --force overwrote an existing weight column")
            rc3, _, exc3 = run_cli([*args, "--force"])
            check(rc3 == 0 and exc3 is None, f"cooler balance --force failed: {exc3!r}")
        stored = cooler.Cooler(uri).bins()[case["name"]][:].to_numpy(dtype=float)
        check(stored.shape == (n,), "stored weight column length")
        if not tie:
            n1, n2 = ~np.isfinite(stored), ~np.isfinite(base_w)
            check(np.array_equal(n1, n2), lambda: f"cooler balance -p {case['nproc']} -c {case['chunksize']}: NaN set of the stored column differs from the library call at bins {np.flatnonzero(n1 != n2)[:5].tolist()}")
            check(np.allclose(stored[~n1], base_w[~n1], rtol=1e-8, atol=0),
                  lambda: f"cooler balance -p {case['nproc']} -c {case['chunksize']}: stored weights differ from the library call, max rel {np.max(np.abs(stored[~n1] - base_w[~n1]) / np.abs(base_w[~n1])):.3g}")
            # the statistics travel with the stored column (attributes of bins/<name>)
            import h5py

            with h5py.File(path, "r") as f:
                at = dict(f[case["group"]]["bins"][case["name"]].attrs)
            for key in ("converged", "var", "scale", "tol"):
                check(key in at, lambda: f"cooler balance stored no {key!r} attribute with the weight column (has {sorted(at)})")
            check(np.array_equal(np.atleast_1d(at["converged"]), np.atleast_1d(base_stats["converged"])),
                  lambda: f"stored 'converged' {at['converged']} differs from the library call {base_stats['converged']}")
            for key in ("var", "scale"):
                a_, b_ = np.atleast_1d(np.asarray(at[key], dtype=float)), np.atleast_1d(np.asarray(base_stats[key], dtype=float))
                check(a_.shape == b_.shape and np.allclose(a_, b_, rtol=1e-8, atol=1e-300, equal_nan=True),
                      lambda: f"stored {key!r} {a_} differs from the library call {b_}")
            check(float(at["tol"]) == o["tol"], f"stored 'tol' {at['tol']} but --tol {o['tol']}")
            # --stdout prints the same weights (%g, empty for NaN) and stores nothing
            rc5, txt5, exc5 = run_cli([*[a for a in args if a not in ("--name", case["name"])], "--name", "printed_only", "--stdout"])
            check(rc5 == 0 and exc5 is None, f"cooler balance --stdout failed: exit {rc5} {exc5!r}")
            lines5 = txt5.split("\n")
            lines5 = lines5[:-1] if lines5 and lines5[-1] == "" and len(lines5) == n + 1 else lines5
            check(len(lines5) == n, lambda: f"cooler balance --stdout printed {len(lines5)} lines for {n} bins: {lines5[:4]}")
            printed = np.array([float(x) if x.strip() else np.nan for x in lines5])
            check(np.array_equal(np.isnan(printed), n2) and np.allclose(printed[~n2], base_w[~n2], rtol=2e-5, atol=0),
                  lambda: f"cooler balance --stdout printed {printed[:6]}, the library call returns {base_w[:6]}")
            check("printed_only" not in cooler.Cooler(uri).bins().columns, "cooler balance --stdout also stored the column")
        # the store= route of the API writes exactly what it returns, and balanced reads use it
        w4, _ = call("balance_cooler(store=True)", c10.run_balance, clr, o, chunksize=case["chunksize"], store=True, store_name="stored_by_api")
        col = cooler.Cooler(uri).bins()["stored_by_api"][:].to_numpy(dtype=float)
        check(np.array_equal(col, np.asarray(w4, dtype=float), equal_nan=True), "balance_cooler(store=True) stored a column that differs from the returned weights")
        B = cooler.Cooler(uri).matrix(balance="stored_by_api")[:]
        want = A * np.outer(col, col)
        check(np.allclose(B, want, rtol=1e-12, atol=0, equal_nan=True), "balanced read with the stored column differs from raw * w_i * w_j")
    finally:
        ctx.clean(path)
    ctx.record(case, case["nproc"] > 1 and len(case["rows"]) > case["chunksize"], ["cli", f"nproc={case['nproc']}", "tie" if tie else "no-tie",
                                                                                   "group=" + case["group"], "twice" if case["twice"] else "once"])


CHECKS = {"sched": check_sched, "cli": check_cli}


def replay(ctx: Ctx, case):
    CHECKS[case["part"]](case, ctx)


def run(ctx: Ctx):
    q = ctx.tier == "quick"
    parts = []
    parts.append(given_part(ctx, "sched", cases(pools=not q), check_sched, per_shard(ctx, 200 if q else 9000), batch=20))
    parts.append(given_part(ctx, "cli", cli_cases(), check_cli, per_shard(ctx, 40 if q else 1600), batch=5))
    run_parts(ctx, parts)
