"""C18 - renaming chromosomes changes names only."""
from __future__ import annotations

import numpy as np
from hypothesis import strategies as st

from .. import gen, model
from ..core import Ctx, Violation, call, check, must_raise, per_shard, run_given, given_part, machine_part, run_parts

PID = "C18"
LEVEL = "exploration"
SHARDS = {"quick": 8, "thorough": 16}
BUDGET = {"quick": 70, "thorough": 780}
RULE = (
    "Case (history) = generated cooler (enum or integer chromosome encoding, root or nested group, extra bin "
    "column) x chain of 1..4 partial renaming maps, each injective on the resulting name set (swaps and cycles "
    "allowed, longer and shorter names than any present). After EVERY step, on the same Cooler object and on a "
    "freshly opened one: names in original order, lengths unchanged, bin labels = new names with unchanged codes, "
    "every other dataset and attribute byte-identical (deep digest without chroms/name and the type of "
    "bins/chrom), extent/offset/bins.fetch/pixels.fetch/matrix.fetch by the new name equal what the model "
    "predicts (= what the old name returned), and a name no longer in use is refused. Non-trivial = >=2 names "
    "changed in a step, one longer than any previous name, chain >= 2. Distinct by sha1 of the canonical case."
    ' The Cooler object under test may be constructed with h5py options for its own handles (in-memory core driver with and without backing store, chunk cache size, libver).'
    ' One joined pixel selector and one bin selector obtained BEFORE the first renaming are sliced again after every step.'
    ' A third of the chains applies ONE mapping object first to a sibling cooler holding only the first chromosome, then to the cooler under test.'
)
ASSUMPTIONS = ["renaming maps only name existing chromosomes and never produce duplicate names"]

NEW_NAMES = st.one_of(
    st.sampled_from(["1", "2", "X", "chr1", "chr2", "chrX", "chrom_one_with_a_rather_long_name_000000000000001", "a", "B"]),
    gen.random_name(1, 14),
    gen.random_name(20, 40),
)


@st.composite
def cases(draw):
    bt = draw(gen.bin_tables(max_chroms=5, max_bins=4, min_chroms=1))
    n = gen.n_bins(bt)
    symmetric = draw(st.booleans())
    rows = draw(gen.pixels(n, symmetric, count=st.integers(1, 99), max_nnz=30))
    names = list(bt["names"])
    chain = []
    cur = list(names)
    for _ in range(draw(st.integers(1, 4))):
        kind = draw(st.sampled_from(["fresh", "fresh", "swap", "cycle", "mixed"]))
        m: dict = {}
        if kind in ("swap", "cycle") and len(cur) >= 2:
            k = 2 if kind == "swap" else draw(st.integers(2, len(cur)))
            idx = draw(st.lists(st.integers(0, len(cur) - 1), min_size=k, max_size=k, unique=True))
            for a, b in zip(idx, idx[1:] + idx[:1]):
                m[cur[a]] = cur[b]
        if kind in ("fresh", "mixed") or not m:
            k = draw(st.integers(1, len(cur)))
            idx = draw(st.lists(st.integers(0, len(cur) - 1), min_size=k, max_size=k, unique=True))
            taken = set(cur) | set(m.values())
            for a in idx:
                if cur[a] in m:
                    continue
                nn = draw(NEW_NAMES.filter(lambda s, taken=taken: s not in taken))
                taken.add(nn)
                m[cur[a]] = nn
        cur = [m.get(x, x) for x in cur]
        assert len(set(cur)) == len(cur)
        chain.append(m)
    return {"part": "rename", "bt": bt, "symmetric": symmetric, "rows": rows, "chain": chain,
            "encoding": draw(st.sampled_from(["enum", "enum", "int"])), "group": draw(st.sampled_from(["/", "/g/h"])),
            "h5opts": draw(st.sampled_from([None, {"compression": None}])),
            # history: ONE mapping object is applied first to another cooler that holds only some of the chromosomes
            # (a name table looped over samples), then to the cooler under test
            "shared_map": draw(st.integers(0, 2)) == 0,
            # the Cooler object may carry h5py options for its own (read) handles; renaming still has to reach the file
            "open_kws": draw(st.sampled_from([None, None, None, {"driver": "core", "backing_store": False}, {"driver": "core"},
                                               {"rdcc_nbytes": 1048576}, {"libver": "latest"}]))}


def check_rename(case, ctx: Ctx):
    import h5py

    import cooler

    from ..coolio import create_from_model, h5_deep_digest

    bt, rows, symmetric = case["bt"], case["rows"], case["symmetric"]
    n = gen.n_bins(bt)
    path = ctx.tmp(".cool")
    uri = path if case["group"] == "/" else path + "::" + case["group"]
    F = model.dense(rows, n, symmetric, 0)
    offs = model.chrom_offsets(bt)
    lens = [e[-1] for e in bt["edges"]]
    try:
        call("create", create_from_model, uri, bt, rows, symmetric, bins_extra={"gc": np.arange(n, dtype=float) / 4},
             h5opts={"compression": None})
        if case["encoding"] == "int":
            with h5py.File(path, "r+") as f:
                g = f[case["group"]]["bins"]
                codes = g["chrom"][:].astype("int32")
                del g["chrom"]
                g.create_dataset("chrom", data=codes, dtype="int32").attrs["enum_path"] = "/chroms/name"
        skip = {"/chroms/name", "/bins/chrom"}
        with h5py.File(path, "r") as f:
            digest0 = h5_deep_digest(f[case["group"]], skip)
            codes0 = np.asarray(f[case["group"]]["bins/chrom"][:], dtype=np.int64)
        clr = cooler.Cooler(uri, **(case.get("open_kws") or {}))
        cur = list(bt["names"])
        br0 = model.bins_rows(bt)
        # the object is USED before the first renaming (name-based lookups and joined tables may be cached on it)
        for ci, nm in enumerate(cur):
            ext = clr.extent(nm)
            check((int(ext[0]), int(ext[1])) == (offs[ci], offs[ci + 1]), f"extent({nm!r}) before any renaming")
        held = clr.pixels(join=True)           # ONE joined selector object, used before and after every renaming
        _ = held[:]
        held_b = clr.bins()
        _ = held_b[:]
        _ = clr.matrix(balance=False, as_pixels=True, join=True)[:]
        for step, m in enumerate(case["chain"]):
            old = list(cur)
            cur = [m.get(x, x) for x in cur]
            mobj = dict(m)
            if case.get("shared_map"):
                other = ctx.tmp(".cool")
                try:
                    sub_bt = {"names": [old[0]], "edges": [bt["edges"][0]], "kinds": [bt["kinds"][0]], "b": bt["b"]}
                    call("create (sibling with the first chromosome only)", create_from_model, other, sub_bt, [], symmetric)
                    oc = cooler.Cooler(other)
                    call(f"rename_chroms(sibling, step {step}: {m})", cooler.rename_chroms, oc, mobj, case["h5opts"])
                    check(oc.chromnames == [m.get(old[0], old[0])], lambda: f"step {step}: sibling chromnames {oc.chromnames} want {[m.get(old[0], old[0])]}")
                finally:
                    ctx.clean(other)
            call(f"rename_chroms(step {step}: {m})", cooler.rename_chroms, clr, mobj, case["h5opts"])
            with h5py.File(path, "r") as f:
                d = h5_deep_digest(f[case["group"]], skip)
                codes = np.asarray(f[case["group"]]["bins/chrom"][:], dtype=np.int64)
                stored = [x.decode() for x in f[case["group"]]["chroms/name"][:].tolist()]
            check(stored == cur, lambda: f"step {step}: chroms/name {stored} want {cur} (truncated or reordered?)")
            check(d == digest0, f"step {step}: a dataset or attribute other than the names changed")
            check(np.array_equal(codes, codes0), f"step {step}: bins/chrom codes changed")
            hj = held[:]
            check([str(x) for x in hj["chrom1"]] == [cur[codes0[r[0]]] for r in rows] and [str(x) for x in hj["chrom2"]] == [cur[codes0[r[1]]] for r in rows],
                  lambda: f"step {step}: a joined pixel selector obtained before the renaming still labels rows {[str(x) for x in hj['chrom1']][:4]}, new names are {[cur[codes0[r[0]]] for r in rows][:4]}")
            check([str(x) for x in held_b[:]["chrom"]] == [cur[k] for k in codes0.tolist()], f"step {step}: a bin selector obtained before the renaming still carries old names")
            for label, c in (("same object", clr), ("reopened", cooler.Cooler(uri))):
                check(c.chromnames == cur, lambda: f"step {step} ({label}): chromnames {c.chromnames} want {cur}")
                check([int(v) for v in c.chromsizes.values] == lens and list(c.chromsizes.index) == cur,
                      f"step {step} ({label}): chromsizes changed")
                b = c.bins()[:]
                want_lab = [cur[k] for k in codes0.tolist()]
                check([str(x) for x in b["chrom"]] == want_lab, lambda: f"step {step} ({label}): bin labels {[str(x) for x in b['chrom']][:6]} want {want_lab[:6]}")
                if hasattr(b["chrom"].dtype, "categories"):
                    check(list(b["chrom"].cat.categories) == cur, f"step {step} ({label}): label categories out of order")
                ch = c.chroms()[:]
                check([str(x) for x in ch["name"]] == cur, f"step {step} ({label}): chroms() table names")
                px = c.pixels()[:]
                check(list(zip(px["bin1_id"].tolist(), px["bin2_id"].tolist(), px["count"].tolist())) == [tuple(r[:3]) for r in rows],
                      f"step {step} ({label}): pixels changed")
                jp = c.pixels(join=True)[:]
                want_c1 = [cur[codes0[r[0]]] for r in rows]
                want_c2 = [cur[codes0[r[1]]] for r in rows]
                check([str(x) for x in jp["chrom1"]] == want_c1 and [str(x) for x in jp["chrom2"]] == want_c2,
                      lambda: f"step {step} ({label}): joined pixel table carries {[str(x) for x in jp['chrom1']][:4]}, new names are {want_c1[:4]}")
                check(jp["start1"].tolist() == [br0[r[0]][1] for r in rows] and jp["end2"].tolist() == [br0[r[1]][2] for r in rows],
                      f"step {step} ({label}): joined pixel coordinates changed")
                mp = c.matrix(balance=False, as_pixels=True, join=True)[:]
                check([str(x) for x in mp["chrom1"]] == want_c1, f"step {step} ({label}): matrix(as_pixels, join) carries old names")
                check(np.array_equal(c.matrix(balance=False)[:], F), f"step {step} ({label}): full matrix changed")
                for ci, nm in enumerate(cur):
                    lo, hi = offs[ci], offs[ci + 1]
                    ext = call(f"extent({nm!r})", c.extent, nm)
                    check((int(ext[0]), int(ext[1])) == (lo, hi), lambda: f"step {step} ({label}): extent({nm!r}) = {ext}, the chromosome formerly called {old[ci]!r} spans {(lo, hi)}")
                    check(int(c.offset(nm)) == lo, f"step {step} ({label}): offset({nm!r})")
                    bf = c.bins().fetch(nm)
                    check(bf.index.tolist() == list(range(lo, hi)), f"step {step} ({label}): bins().fetch({nm!r})")
                    A = c.matrix(balance=False).fetch(nm)
                    check(np.array_equal(A, F[lo:hi, lo:hi]), f"step {step} ({label}): matrix().fetch({nm!r}) differs")
                    if len(cur) > 1:
                        other = cur[(ci + 1) % len(cur)]
                        lo2, hi2 = offs[(ci + 1) % len(cur)], offs[(ci + 1) % len(cur) + 1]
                        A2 = c.matrix(balance=False).fetch(f"{nm}:0-{lens[ci]}", other)
                        check(np.array_equal(A2, F[lo:hi, lo2:hi2]), f"step {step} ({label}): two-region fetch by new names differs")
                    pf = c.pixels().fetch(nm)
                    check(pf["bin1_id"].tolist() == [r[0] for r in rows if lo <= r[0] < hi], f"step {step} ({label}): pixels().fetch({nm!r})")
                for gone in set(old) - set(cur):
                    must_raise(f"step {step} ({label}): lookup by the old name {gone!r}", c.extent, gone)
    finally:
        ctx.clean(path)
    longest0 = max(len(x) for x in bt["names"])
    nt = len(case["chain"]) >= 2 and any(len(m) >= 2 for m in case["chain"]) and \
        any(len(v) > longest0 for m in case["chain"] for v in m.values())
    ctx.record(case, nt, ["rename", f"chain={len(case['chain'])}", "shared-mapping-object" if case.get("shared_map") else "own-mapping", "enc=" + case["encoding"], "group=" + case["group"], "open-kws=" + ("+".join(sorted(case.get("open_kws") or {})) or "none"),
                          "has-swap" if any(set(m.values()) & set(m.keys()) for m in case["chain"]) else "no-swap",
                          "longer" if any(len(v) > longest0 for m in case["chain"] for v in m.values()) else "not-longer"])


# ---------------------------------------------------------------------------
# many contigs: the enum header of bins/chrom is close to the HDF5 limit
# ---------------------------------------------------------------------------

@st.composite
def manycontig_cases(draw):
    nch = draw(st.sampled_from([400, 900, 1500, 2000, 2300]))
    newlen = draw(st.integers(8, 60))
    frac = draw(st.sampled_from(["all", "all", "half", "one"]))
    return {"part": "manycontig", "nch": nch, "newlen": newlen, "which": frac}


def check_manycontig(case, ctx: Ctx):
    import h5py
    import pandas as pd

    import cooler

    nch = case["nch"]
    names = [f"c{k}" for k in range(nch)]
    bins = pd.DataFrame({"chrom": names, "start": 0, "end": [10 + k % 5 for k in range(nch)]})
    ids = sorted({(k, min(nch - 1, k + (k * 7) % 11)) for k in range(0, nch, max(1, nch // 40))})
    px = pd.DataFrame({"bin1_id": [a for a, b in ids], "bin2_id": [b for a, b in ids], "count": 1})
    path = ctx.tmp(".cool")
    try:
        call("create_cooler(many contigs)", cooler.create_cooler, path, bins, px, ordered=True, h5opts={"compression": None})
        clr = cooler.Cooler(path)
        _ = clr.extent(names[nch // 2])
        sel = range(nch) if case["which"] == "all" else range(0, nch, 2) if case["which"] == "half" else [nch // 3]
        m = {names[k]: (f"renamed_{k}_" + "x" * 80)[: max(case["newlen"], len(f"renamed_{k}_"))] for k in sel}
        call(f"rename_chroms({len(m)} of {nch} contigs to {case['newlen']}-character names)", cooler.rename_chroms, clr, m)
        cur = [m.get(x, x) for x in names]
        for label, c in (("same object", clr), ("reopened", cooler.Cooler(path))):
            check(c.chromnames == cur, f"many contigs ({label}): chromnames differ after renaming")
            b = call(f"bins()[:] ({label})", lambda c=c: c.bins()[:])
            check([str(x) for x in b["chrom"]] == cur, f"many contigs ({label}): bin labels differ after renaming")
            k = nch - 2
            ext = call(f"extent by new name ({label})", c.extent, cur[k])
            check((int(ext[0]), int(ext[1])) == (k, k + 1), f"many contigs ({label}): extent({cur[k]!r}) = {ext}")
            j = call(f"pixels(join=True) ({label})", lambda c=c: c.pixels(join=True)[:])
            check([str(x) for x in j["chrom2"]] == [cur[b_] for _, b_ in ids], f"many contigs ({label}): joined chrom2 differs")
        with h5py.File(path, "r") as f:
            check(len(f["bins/chrom"]) == nch and "chrom" in f["bins"], "bins/chrom missing or truncated after renaming")
            enum = h5py.check_dtype(enum=f["bins/chrom"].dtype)
    finally:
        ctx.clean(path)
    ctx.record(case, True, ["manycontig", f"nch={nch}", "enum-after" if enum is not None else "int-after"])


CHECKS = {"rename": check_rename, "manycontig": check_manycontig}


def replay(ctx: Ctx, case):
    CHECKS[case["part"]](case, ctx)


def run(ctx: Ctx):
    q = ctx.tier == "quick"
    parts = []
    parts.append(given_part(ctx, "manycontig", manycontig_cases(), check_manycontig, per_shard(ctx, 64 if q else 1600), batch=8))
    parts.append(given_part(ctx, "rename", cases(), check_rename, per_shard(ctx, 400 if q else 14000), batch=40))
    run_parts(ctx, parts)
