"""C10 - balancing weights flatten the marginals of the filtered matrix."""
from __future__ import annotations

import numpy as np
from hypothesis import strategies as st

from .. import balmodel, gen, model
from ..core import Ctx, Violation, call, check, per_shard, run_given, given_part, machine_part, run_parts

PID = "C10"
LEVEL = "exploration"
SHARDS = {"quick": 8, "thorough": 16}
BUDGET = {"quick": 90, "thorough": 840}
RULE = (
    "Case = symmetric cooler (1..4 chromosomes, 6..40 bins, zero-heavy counts, forced empty rows, isolated "
    "diagonal-only bins, sparse rows) x mode (genome-wide, cis, trans) x ignore_diags 0..3 x min_nnz {0,1,2,5,10} x "
    "min_count {0,5,20} x mad_max {0,1,3,5} x blacklist x tol {1e-2,1e-5,1e-8} x max_iters {1,5,50,300} x x0 "
    "(None, positive, with 0 and NaN) x rescale. Oracle (validity predicate, only for runs/chromosomes reporting "
    "convergence): with A_f the dense filtered matrix, w the returned weights and R the finite ones, every row "
    "sum s_i = sum_j w_i w_j A_f[i,j] over retained bins with data satisfies |s_i/target - 1| <= e/(1-e), e = "
    "sqrt(n_nonzero*tol)/scale (derivation in DESIGN C10); NaN set = independent three-valued reference of the "
    "documented filters (cut-off ties free); finite weights > 0; stats['converged'] == (var < tol). Non-trivial = "
    "converged, >=3 retained bins, >=1 bin masked by a filter, input not already balanced. Distinct by sha1."
    " Also: options left out of the call (documented defaults, incl. the mode flags) with the reference using the defaults; real-valued counts (matrix scaled by 1/64 or 1/4); matrices with only cis or only trans data balanced in the mode left with nothing; an all-bin-filters-off preset; very regular maps (one count value everywhere, a few weak bins: more than half of the marginals exactly equal, so the MAD is 0); a third of the plain cases run an earlier, short balancing with other filter thresholds on the same Cooler object first; stats['divisive_weights'] is False; CLI: --force over a column stored by a much stricter earlier run, options left off the command line."
)
ASSUMPTIONS = [
    "'no remaining data' is read at the granularity the code implements: a whole matrix / chromosome without a non-zero marginal (DESIGN section 4 rule 7)",
    "bin filters are evaluated on the matrix with cis_only / ignore_diags applied, before balancing, as the procedure does",
]

VALUES = st.sampled_from([0, 0, 0, 1, 1, 2, 3, 5, 8, 13, 40])
DENSE_VALUES = st.sampled_from([1, 2, 3, 5, 8, 13, 21, 40, 7, 11])


@st.composite
def matrices(draw, min_bins=6, max_bins=24, max_chroms=4):
    nch = draw(st.integers(1, max_chroms))
    sizes = [draw(st.integers(max(1, min_bins // nch), max(2, max_bins // nch))) for _ in range(nch)]
    n = sum(sizes)
    offsets = [0]
    for s in sizes:
        offsets.append(offsets[-1] + s)
    dense = draw(st.booleans())
    vals = draw(st.lists(DENSE_VALUES if dense else VALUES, min_size=n * (n + 1) // 2, max_size=n * (n + 1) // 2))
    A = np.zeros((n, n), dtype=int)
    iu = np.triu_indices(n)
    A[iu] = vals
    if draw(st.integers(0, 7)) == 0 and n >= 6:
        # a very regular map (saturated / binarised / constant counts): one value everywhere, except that a few weak bins
        # only touch a minority of the others - more than half of the marginals are then exactly equal (MAD = 0)
        c_ = draw(st.sampled_from([1, 1, 2, 5]))
        A[iu] = c_
        weak = draw(st.lists(st.integers(0, n - 1), min_size=1, max_size=2, unique=True))
        for w_ in weak:
            keep = set(draw(st.lists(st.integers(0, n - 1), min_size=1, max_size=max(1, n // 3), unique=True))) | {w_}
            for j_ in range(n):
                if j_ not in keep:
                    A[min(w_, j_), max(w_, j_)] = 0
    empty = draw(st.lists(st.integers(0, n - 1), max_size=max(1, n // 6), unique=True))
    isolated = draw(st.lists(st.integers(0, n - 1), max_size=2, unique=True))
    for i in empty:
        A[i, :] = 0
        A[:, i] = 0
    for i in isolated:
        d = max(1, A[i, i])
        A[i, :] = 0
        A[:, i] = 0
        A[i, i] = d
    # sometimes one of the two parts of the matrix holds no data at all: only intra-chromosomal contacts (a trans-only
    # run is then left with nothing) or only inter-chromosomal ones (nothing for a cis-only run)
    part = draw(st.sampled_from([None] * 10 + ["cis", "trans"])) if nch >= 2 else None
    if part:
        same = np.zeros((n, n), dtype=bool)
        for lo, hi in zip(offsets[:-1], offsets[1:]):
            same[lo:hi, lo:hi] = True
        A[~same if part == "cis" else same] = 0
    rows = [[int(i), int(j), int(A[i, j])] for i, j in zip(*iu) if A[i, j]]
    return {"sizes": sizes, "offsets": offsets, "rows": rows, "n": n, "only_part": part}


# the documented defaults of balance_cooler / `cooler balance`: options left out of a call take these values
DOC_DEFAULTS = {"cis_only": False, "trans_only": False, "ignore_diags": 2, "mad_max": 5, "min_nnz": 10, "min_count": 0,
                "blacklist": None, "rescale": True, "x0": None, "tol": 1e-5, "max_iters": 200}


@st.composite
def options(draw, n, nch):
    mode = draw(st.sampled_from(["genome", "cis", "genome", "trans", "cis"] if nch >= 2 else ["genome", "genome", "cis"]))
    x0kind = draw(st.sampled_from([None, None, None, "positive", "holes"]))
    x0 = None
    if x0kind:
        x0 = [draw(st.floats(0.2, 5.0)) for _ in range(n)]
        if x0kind == "holes":
            for i in draw(st.lists(st.integers(0, n - 1), min_size=1, max_size=3, unique=True)):
                x0[i] = draw(st.sampled_from([0.0, None]))
    # options that are NOT passed: the documented default applies (and is what the reference then uses)
    omit = draw(st.lists(st.sampled_from(["ignore_diags", "mad_max", "min_count", "tol", "max_iters", "rescale", "min_nnz", "x0", "blacklist",
                                          "cis_only", "trans_only"]),
                         unique=True, min_size=1, max_size=5)) if draw(st.integers(0, 2)) == 0 else []
    # the two mode flags can only be left out when the mode is the default one (genome-wide)
    omit = [k for k in omit if k not in ("cis_only", "trans_only") or mode == "genome"]
    if "min_nnz" in omit and n < 14:
        omit.remove("min_nnz")      # the default (10) would mask every bin of a small matrix
    o = _options(draw, n, mode, x0)
    if draw(st.integers(0, 5)) == 0:
        # all bin-level filters off at once: bins that keep no data after the pixel-level filters (a lone diagonal
        # pixel under ignore_diags, a bin without cis / trans contacts) then stay in the iteration with a zero marginal
        o.update(min_nnz=0, mad_max=0, min_count=0)
    for k in omit:
        o[k] = DOC_DEFAULTS[k]
    o["omit"] = sorted(omit)
    return o


def _options(draw, n, mode, x0):
    return {"cis_only": mode == "cis", "trans_only": mode == "trans",
            "ignore_diags": draw(st.sampled_from([2, 1, 0, 2, 3])),
            "min_nnz": draw(st.sampled_from([2, 0, 1, 5, 10])), "min_count": draw(st.sampled_from([0, 0, 5, 20])),
            "mad_max": draw(st.sampled_from([3, 0, 1, 5])),
            "blacklist": draw(st.one_of(st.none(), st.lists(st.integers(0, n - 1), min_size=1, max_size=3, unique=True))),
            "tol": draw(st.sampled_from([1e-5, 1e-2, 1e-5, 1e-8])), "max_iters": draw(st.sampled_from([300, 300, 50, 5, 1, 300])),
            "x0": x0, "rescale": draw(st.sampled_from([True, True, False]))}


@st.composite
def cases(draw, max_bins=24):
    m = draw(matrices(max_bins=max_bins))
    # real-valued contact matrices (e.g. normalised or down-weighted counts): every entry scaled by an exact dyadic
    # factor, so that small counts fall strictly between 0 and 1
    cscale = draw(st.sampled_from([None, None, None, 0.015625, 0.25]))
    if cscale:
        m = dict(m, rows=[[r[0], r[1], r[2] * cscale] for r in m["rows"]])
    o = draw(options(m["n"], len(m["sizes"])))
    if m.get("only_part") and draw(st.booleans()):
        # ... and the run is the one that is left with nothing: every bin then has "no remaining data"
        o.update(cis_only=m["only_part"] == "trans", trans_only=m["only_part"] == "cis", rescale=draw(st.booleans()))
        o["omit"] = [k for k in o["omit"] if k not in ("rescale", "cis_only", "trans_only")]
    if cscale and o["min_count"]:
        o = dict(o, min_count=o["min_count"] * cscale)
    # history: the Cooler object is made while the URI still holds a thinner matrix over the same bins
    return {"part": "balance", **m, "opts": o, "stale_object": draw(st.integers(0, 3)) == 0,
            # history: the same path first held (and was balanced as) a cooler with the same number of bins but other
            # chromosome boundaries
            "prior_layout": draw(st.integers(0, 3)) == 0 and len(m["sizes"]) >= 2,
            "chunksize": draw(st.sampled_from([None, None, 10**7, max(8, len(m["rows"]) // 3)]))}


def count_dtypes(case):
    """Real-valued counts (matrices scaled by a dyadic factor) are stored as float64."""
    return {"count": np.dtype("float64")} if any(isinstance(r[2], float) for r in case["rows"]) else None


def make_cooler(ctx, case):
    from ..coolio import create_from_model

    edges = [[10 * k for k in range(s + 1)] for s in case["sizes"]]
    bt = {"names": [f"chr{t + 1}" for t in range(len(edges))], "edges": edges, "kinds": ["fixed"] * len(edges)}
    path = ctx.tmp(".cool")
    call("create", create_from_model, path, bt, case["rows"], True, dtypes=count_dtypes(case), h5opts={"compression": None})
    return path


def run_balance(clr, o, **kw):
    import warnings

    import cooler

    x0 = None if o["x0"] is None else np.array([np.nan if v is None else v for v in o["x0"]], dtype=float)
    bl = None if not o["blacklist"] else np.array(o["blacklist"], dtype=int)
    with warnings.catch_warnings():
        warnings.simplefilter("ignore")
        with np.errstate(all="ignore"):
            okw = dict(cis_only=o["cis_only"], trans_only=o["trans_only"], ignore_diags=o["ignore_diags"] or False,
                       mad_max=o["mad_max"], min_nnz=o["min_nnz"], min_count=o["min_count"], blacklist=bl,
                       rescale_marginals=o["rescale"], x0=x0, tol=o["tol"], max_iters=o["max_iters"])
            for k in o.get("omit", []):
                okw.pop("rescale_marginals" if k == "rescale" else k)
            return cooler.balance_cooler(clr, **okw, **kw)


def known_modes(case):
    """(diag_weight, use_cweights) of the implementation-defined weaker relation for this case."""
    o = case["opts"]
    has_diag = any(r[0] == r[1] for r in case["rows"])
    return (2 if (not o["ignore_diags"] and has_diag) else 1), bool(o["trans_only"])


def check_balance(case, ctx: Ctx):
    import cooler

    o = case["opts"]
    n, offsets = case["n"], case["offsets"]
    A = model.dense(case["rows"], n, True, 0)
    kw = {"chunksize": case["chunksize"]} if "chunksize" in case else {}
    if case.get("stale_object") and len(case["rows"]) >= 2:
        from ..coolio import create_from_model

        thin = dict(case, rows=case["rows"][: len(case["rows"]) // 2])
        path = make_cooler(ctx, thin)
        try:
            clr = cooler.Cooler(path)
            _ = clr.matrix(balance=False, sparse=True)[:]
            edges = [[10 * k for k in range(s_ + 1)] for s_ in case["sizes"]]
            bt = {"names": [f"chr{t + 1}" for t in range(len(edges))], "edges": edges, "kinds": ["fixed"] * len(edges)}
            call("re-create with the full matrix", create_from_model, path, bt, case["rows"], True, dtypes=count_dtypes(case), h5opts={"compression": None}, mode="a")
            w, stats = call("balance_cooler (object created before the re-creation)", run_balance, clr, o, **kw)
        finally:
            ctx.clean(path)
    elif case.get("prior_layout"):
        from ..coolio import create_from_model

        sizes2 = case["sizes"][::-1] if case["sizes"] != case["sizes"][::-1] else [case["n"]]
        path = make_cooler(ctx, dict(case, sizes=sizes2))
        try:
            _ = call("balance_cooler (earlier collection at the same path)", run_balance, cooler.Cooler(path),
                     dict(o, x0=None, blacklist=None, max_iters=3))
            edges = [[10 * k for k in range(s_ + 1)] for s_ in case["sizes"]]
            bt = {"names": [f"chr{t + 1}" for t in range(len(edges))], "edges": edges, "kinds": ["fixed"] * len(edges)}
            call("replace the collection at the same path", create_from_model, path, bt, case["rows"], True, dtypes=count_dtypes(case), h5opts={"compression": None})
            clr = cooler.Cooler(path)
            w, stats = call("balance_cooler", run_balance, clr, o, **kw)
        finally:
            ctx.clean(path)
    else:
        path = make_cooler(ctx, case)
        try:
            clr = cooler.Cooler(path)
            if (len(case["rows"]) + n) % 3 == 0:
                # history: an EARLIER run on the same Cooler object with other filter thresholds (same mode and ignore_diags):
                # a short run with the MAD-max filter on and the count filters off
                _ = call("balance_cooler (earlier run on the same object, other thresholds)", run_balance, clr,
                         dict(o, mad_max=3, min_count=0, min_nnz=0, x0=None, blacklist=None, max_iters=2,
                              omit=[k for k in o.get("omit", []) if k in ("cis_only", "trans_only", "ignore_diags", "tol", "rescale")]))
            w, stats = call("balance_cooler", run_balance, clr, o, **kw)
        finally:
            ctx.clean(path)
    w = np.asarray(w, dtype=float)
    check(w.shape == (n,), f"weights shape {w.shape}")
    fin = np.isfinite(w)
    var = np.asarray(stats["var"], dtype=float)
    # the weights are multiplicative (that is how the property - and every reader of the stored column - applies them)
    check(stats.get("divisive_weights") is False, f"stats['divisive_weights'] = {stats.get('divisive_weights')!r} for multiplicative weights")
    with np.errstate(invalid="ignore"):
        check(np.array_equal(np.asarray(stats["converged"]), var < o["tol"]), f"stats['converged'] = {stats['converged']} but var = {stats['var']}, tol = {o['tol']}")
    dw, cw = known_modes(case)

    # ---- mask -------------------------------------------------------------
    def mask_problem(diag_weight, use_cw):
        ref = balmodel.ic_dense(A, offsets, o, diag_weight=diag_weight, use_cweights=use_cw)
        _, tie = balmodel.bin_masks(A, offsets, o, diag_weight=diag_weight)
        ref_nan = ~np.isfinite(ref["weights"])
        diff = (ref_nan != ~fin) & ~tie
        if tie.any():
            return None   # a cut-off tie can cascade (whole-chromosome emptiness): accept either outcome
        if diff.any():
            i = int(np.flatnonzero(diff)[0])
            return f"bin {i} is {'NaN' if not fin[i] else 'finite'} but the documented filters say {'masked' if ref_nan[i] else 'kept'}"
        return None

    conv_all = bool(np.all(np.atleast_1d(np.asarray(stats["converged"]))))
    blown = bool(np.any(~np.isfinite(np.atleast_1d(var)))) or (bool(np.any(np.abs(w[fin]) > 1e60)) if fin.any() else False)
    # The property speaks of runs that report convergence.  A run that does not converge may diverge numerically
    # (weights beyond 1e60, infinite variance), where NaN/inf patterns depend on the order of floating-point
    # operations; the mask is then compared only if nothing blew up.
    if conv_all or not blown:
        # (a diverging run underflows to weights of exactly 0 as easily as it overflows)
        check(bool(np.all(w[fin] > 0)), lambda: f"a finite weight is not positive: {w[fin][w[fin] <= 0][:3]}")
    mp = mask_problem(1, False) if (conv_all or not blown) else None
    used_known = []
    if mp is not None:
        mp2 = mask_problem(dw, cw) if (dw, cw) != (1, False) else mp
        if mp2 is None and dw == 2:
            used_known.append("C10-diag-twice")
        elif mp2 is None:
            pass    # cweights do not influence the mask; unreachable
        else:
            raise Violation(f"mask differs from the reference filters: {mp2}; options {o}")

    # ---- flatness -----------------------------------------------------------
    conv = np.atleast_1d(np.asarray(stats["converged"]))
    scale = stats["scale"]
    n_checked = 0
    if conv.any():
        o_chk = o
        if o["cis_only"]:
            # only converged chromosomes are subject to the bound
            sc = np.array(np.atleast_1d(scale), dtype=float)
            sc[~conv] = np.nan
            scale_chk = sc
        else:
            scale_chk = scale
        worst, n_checked, detail = balmodel.flatness_excess(A, offsets, o_chk, w, scale_chk, 1, False)
        if worst > 1:
            worst2, _, detail2 = balmodel.flatness_excess(A, offsets, o_chk, w, scale_chk, dw, cw)
            if (dw, cw) != (1, False) and worst2 <= 1:
                if dw == 2:
                    used_known.append("C10-diag-twice")
                if cw:
                    used_known.append("C10-trans-cweights")
                if dw == 2 and cw:
                    # attribute precisely: which of the two conventions is needed?
                    a, _, _ = balmodel.flatness_excess(A, offsets, o_chk, w, scale_chk, 2, False)
                    b, _, _ = balmodel.flatness_excess(A, offsets, o_chk, w, scale_chk, 1, True)
                    if a <= 1:
                        used_known = [k for k in used_known if k != "C10-trans-cweights"]
                    elif b <= 1:
                        used_known = [k for k in used_known if k != "C10-diag-twice"]
            else:
                raise Violation(f"converged but marginals are not flat: {detail if (dw, cw) == (1, False) else detail2}; "
                                f"scale {scale}, var {stats['var']}, options {o}")
    for k in sorted(set(used_known)):
        ctx.known_finding(k, case, "true row sums are not flat / mask differs; the implementation-defined relation holds")
    must, _ = balmodel.bin_masks(A, offsets, o, diag_weight=dw)
    already = len(set(np.round(A.sum(axis=1)[A.sum(axis=1) > 0], 9))) <= 1
    nt = bool(conv.any()) and int(fin.sum()) >= 3 and bool(must.any()) and not already
    ctx.record(case, nt, ["balance", "mode=" + ("cis" if o["cis_only"] else "trans" if o["trans_only"] else "genome"),
                          "options-left-to-defaults=" + str(len(o.get("omit", []))),
                          "converged" if conv.all() else "partly-converged" if conv.any() else "not-converged",
                          f"ignore_diags={o['ignore_diags']}", "flatness-checked" if n_checked else "flatness-skipped",
                          "all-nan" if not fin.any() else "some-finite", "x0" if o["x0"] else "no-x0",
                          "known" if used_known else "clean", "stale-object" if case.get("stale_object") else "fresh-object"])


# ---------------------------------------------------------------------------
# command line: --blacklist BED (regions -> bins through bedslice)
# ---------------------------------------------------------------------------

@st.composite
def cli_cases(draw):
    m = draw(matrices(min_bins=6, max_bins=16, max_chroms=3))
    o = draw(options(m["n"], len(m["sizes"])))
    o.update(x0=None, rescale=True, blacklist=None, max_iters=min(o["max_iters"], 100) if "max_iters" not in o["omit"] else o["max_iters"])
    regs = []
    for _ in range(draw(st.integers(1, 3))):
        ci = draw(st.integers(0, len(m["sizes"]) - 1))
        L = 10 * m["sizes"][ci]
        a = draw(st.one_of(st.integers(0, L - 1), st.integers(0, m["sizes"][ci] - 1).map(lambda k: 10 * k)))
        b = draw(st.one_of(st.integers(a + 1, L), st.integers(a // 10 + 1, m["sizes"][ci]).map(lambda k: 10 * k)))
        regs.append([ci, a, b])
    return {"part": "cli", **m, "opts": o, "regions": regs, "header": draw(st.sampled_from([False, True, "hash"])),
            # --ignore-dist D: ignore max(ignore_diags, ceil(D / binsize)) diagonals (bins are 10 bp wide here)
            "ignore_dist": draw(st.sampled_from([None, None, 10, 20, 30, 15, 25, 5]))}


def check_cli(case, ctx: Ctx):
    import os

    import cooler

    from ..cliutil import run_cli

    o = dict(case["opts"])
    n, offsets = case["n"], case["offsets"]
    A = model.dense(case["rows"], n, True, 0)
    # bins overlapping each half-open region, by linear scan
    bl = sorted({offsets[ci] + k for ci, a, b in case["regions"] for k in range(case["sizes"][ci]) if 10 * k < b and 10 * (k + 1) > a})
    path = make_cooler(ctx, case)
    bed = path + ".blacklist.bed"
    try:
        with open(bed, "w") as f:
            if case["header"]:
                # a header line, plain or the way bedtools / UCSC exports write it ("#chrom ...")
                f.write(("#" if case["header"] == "hash" else "") + "chrom\tstart\tend\n")
            for ci, a, b in case["regions"]:
                f.write(f"chr{ci + 1}\t{a}\t{b}\n")
        args = ["balance", path, "-p", 1, "--blacklist", bed]
        for k, flag in (("ignore_diags", "--ignore-diags"), ("mad_max", "--mad-max"), ("min_nnz", "--min-nnz"),
                        ("min_count", "--min-count"), ("tol", "--tol"), ("max_iters", "--max-iters")):
            if k not in o.get("omit", []):
                args += [flag, repr(o[k]) if k == "tol" else o[k]]
        if o["cis_only"]:
            args.append("--cis-only")
        if o["trans_only"]:
            args.append("--trans-only")
        if case.get("ignore_dist") is not None:
            args += ["--ignore-dist", case["ignore_dist"]]
            o["ignore_diags"] = max(o["ignore_diags"], -(-case["ignore_dist"] // 10))
        if case.get("header"):
            # history: the file already carries a weight column from a much stricter run (most bins masked); the run
            # under test replaces it with --force and owes nothing to it
            rc0, _, exc0 = run_cli(["balance", path, "--min-nnz", max(2, n // 2), "--mad-max", 1, "--max-iters", 3])
            check(rc0 == 0 and exc0 is None, f"cooler balance (earlier, stricter run) failed: exit {rc0} {exc0!r}")
            args.append("--force")
        rc, _, exc = run_cli(args)
        check(rc == 0 and exc is None, f"cooler balance --blacklist failed: exit {rc} {exc!r}")
        w = cooler.Cooler(path).bins()["weight"][:].to_numpy(dtype=float)
    finally:
        ctx.clean(path, bed)
    o["blacklist"] = bl
    dw, cw = known_modes(case)
    ref = balmodel.ic_dense(A, offsets, o, diag_weight=dw, use_cweights=cw)
    _, tie = balmodel.bin_masks(A, offsets, o, diag_weight=dw)
    if not tie.any():
        ref_nan = ~np.isfinite(ref["weights"])
        diff = np.flatnonzero(ref_nan != ~np.isfinite(w))
        check(len(diff) == 0, lambda: f"cooler balance --blacklist {case['regions']}: bin {int(diff[0])} is "
                                      f"{'finite' if np.isfinite(w[diff[0]]) else 'NaN'} but the regions overlap exactly bins {bl} "
                                      f"(plus the documented filters)")
        near_tol = any(abs(v - o["tol"]) <= 1e-6 * o["tol"] for v in ref["variances"])
        blown = any((not np.isfinite(v)) or v > 1e100 for v in ref["variances"])
        if not near_tol and not blown and np.all(ref["converged"]):
            fin_ = np.isfinite(w)
            check(np.allclose(w[fin_], ref["weights"][fin_], rtol=1e-8, atol=0),
                  lambda: f"cooler balance {[a for a in args[2:]]}: stored weights differ from the documented procedure with "
                          f"{o['ignore_diags']} ignored diagonals, max rel {np.max(np.abs(w[fin_] - ref['weights'][fin_]) / np.abs(ref['weights'][fin_])):.3g}")
    ctx.record(case, any(a % 10 == 0 or b % 10 == 0 for _, a, b in case["regions"]), ["cli-blacklist", ("header-" + str(case["header"])) if case["header"] else "no-header"])


CHECKS = {"balance": check_balance, "cli": check_cli}


def replay(ctx: Ctx, case):
    CHECKS[case["part"]](case, ctx)


def run(ctx: Ctx):
    q = ctx.tier == "quick"
    parts = []
    parts.append(given_part(ctx, "balance", cases(24), check_balance, per_shard(ctx, 640 if q else 30000), batch=50))
    parts.append(given_part(ctx, "cli-blacklist", cli_cases(), check_cli, per_shard(ctx, 160 if q else 4000), batch=20))
    if not q:
        parts.append(given_part(ctx, "balance-large", cases(40), check_balance, per_shard(ctx, 3000), batch=30))
    run_parts(ctx, parts)
