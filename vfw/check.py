"""CLI of the framework.

  python -m vfw.check C07 --tier quick            # fan out over shards, write evidence
  python -m vfw.check C07 --replay replay/x.json  # re-run one saved case, no Hypothesis
  python -m vfw.check C07 --shard 3/8 --out f     # (internal) one shard

Exit codes: 0 held (possibly with KNOWN-FINDING lines), 1 violation, 2 harness error.
"""
from __future__ import annotations

import argparse
import glob
import importlib
import json
import os
import subprocess
import sys
import tempfile
import time
import traceback

HERE = os.path.dirname(os.path.abspath(__file__))
VERIF = os.path.dirname(HERE)


def _bootstrap():
    """Point the interpreter at the tree under test and at the offline deps."""
    repo = os.environ.get("VERIF_REPO", "/repo")
    src = os.path.join(repo, "src")
    if not os.path.isdir(os.path.join(src, "cooler")):
        print(f"vfw: no cooler sources under {src}", file=sys.stderr)
        sys.exit(2)
    sys.path.insert(0, src)
    if VERIF not in sys.path:
        sys.path.insert(0, VERIF)
    from vfw import deps

    deps.ensure("hypothesis")
    import cooler

    if not os.path.realpath(cooler.__file__).startswith(os.path.realpath(src)):
        print(f"vfw: imported cooler from {cooler.__file__}, expected under {src}", file=sys.stderr)
        sys.exit(2)
    cooler.set_verbosity_level(0)
    import logging
    import warnings

    logging.getLogger("cooler").setLevel(logging.CRITICAL)
    warnings.filterwarnings("ignore")
    # see DESIGN §2: the first import of dask.dataframe pins caller frames
    try:
        import dask.dataframe  # noqa: F401
    except Exception:  # noqa: BLE001
        pass
    return src


def _load(pid: str):
    return importlib.import_module(f"vfw.props.{pid.lower()}")


def _run_replays(mod, ctx, files) -> None:
    from vfw.core import Violation, as_violation

    for path in files:
        with open(path) as f:
            doc = json.load(f)
        if doc.get("property") != mod.PID:
            continue
        case = doc["case"]
        try:
            mod.replay(ctx, case)
            ctx.record({"part": "replay", "file": os.path.basename(path)}, False, ["replay"])
        except Violation as e:
            ctx.add_violation(case, f"replay {os.path.basename(path)}: {e}")
        except Exception as e:  # noqa: BLE001
            v = as_violation(e)
            if v is None:
                raise
            ctx.add_violation(case, f"replay {os.path.basename(path)}: {v}")


def shard_main(args) -> int:
    _bootstrap()
    from vfw.core import Ctx, HarnessError

    mod = _load(args.property)
    k, n = (int(x) for x in args.shard.split("/"))
    seed = int(os.environ.get("VERIF_SEED", "1"))
    budget = float(args.budget)
    ctx = Ctx(mod.PID, args.tier, seed, k, n, budget)
    rc = 0
    try:
        if k == 0:
            files = sorted(glob.glob(os.path.join(VERIF, "replay", f"{mod.PID}-*.json")))
            _run_replays(mod, ctx, files)
        if not ctx.violations:
            mod.run(ctx)
    except HarnessError as e:
        print(f"HARNESS-ERROR shard {k}: {e}", file=sys.stderr)
        rc = 2
    except Exception:  # noqa: BLE001
        print(f"HARNESS-ERROR shard {k}:\n{traceback.format_exc()}", file=sys.stderr)
        rc = 2
    finally:
        ctx.cleanup()
    with open(args.out, "w") as f:
        json.dump(ctx.result(), f)
    return rc


def replay_main(args) -> int:
    _bootstrap()
    from vfw.core import Ctx, Violation, as_violation

    mod = _load(args.property)
    ctx = Ctx(mod.PID, "quick", int(os.environ.get("VERIF_SEED", "1")), 0, 1, 3600, replay_mode=True)
    with open(args.replay) as f:
        doc = json.load(f)
    case = doc["case"] if "case" in doc and "property" in doc else doc
    try:
        mod.replay(ctx, case)
    except Violation as e:
        print(f"replay failed: {e}")
        print(f"VIOLATION property={mod.PID} replay={args.replay}")
        return 1
    except Exception as e:  # noqa: BLE001
        v = as_violation(e)
        if v is None:
            raise
        print(f"replay failed: {v}")
        print(f"VIOLATION property={mod.PID} replay={args.replay}")
        return 1
    finally:
        ctx.cleanup()
    for key, n in ctx.excluded_known.items():
        print(f"KNOWN-FINDING: property={mod.PID} {ctx.known[key]['what']} [{key}]")
    print(f"replay ok: property={mod.PID} {args.replay}")
    return 0


def main_fanout(args) -> int:
    _bootstrap()
    mod = _load(args.property)
    tier = args.tier
    seed = int(os.environ.get("VERIF_SEED", "1"))
    nshards = int(os.environ.get("VERIF_SHARDS", mod.SHARDS[tier]))
    budget = float(os.environ.get("VERIF_BUDGET", mod.BUDGET[tier]))
    t0 = time.time()
    outdir = tempfile.mkdtemp(prefix=f"vfw-{mod.PID}-out-",
                              dir="/dev/shm" if os.path.isdir("/dev/shm") else None)
    procs = []
    env = dict(os.environ, PYTHONHASHSEED="0", VERIF_SEED=str(seed),
               OMP_NUM_THREADS="1", OPENBLAS_NUM_THREADS="1", MKL_NUM_THREADS="1")
    for k in range(nshards):
        out = os.path.join(outdir, f"shard{k}.json")
        cmd = [sys.executable, "-m", "vfw.check", mod.PID, "--tier", tier,
               "--shard", f"{k}/{nshards}", "--out", out, "--budget", str(budget)]
        procs.append((k, out, subprocess.Popen(cmd, cwd=VERIF, env=env)))
    results, harness_errors = [], []
    hard_timeout = budget * 2.5 + 240
    for k, out, p in procs:
        try:
            rc = p.wait(timeout=max(5.0, hard_timeout - (time.time() - t0)))
        except subprocess.TimeoutExpired:
            p.kill()
            rc = 2
            harness_errors.append(f"shard {k}: killed after hard timeout")
        if rc not in (0,):
            harness_errors.append(f"shard {k}: exit {rc}")
        if os.path.exists(out):
            with open(out) as f:
                results.append(json.load(f))
    import shutil

    shutil.rmtree(outdir, ignore_errors=True)

    # merge
    evaluations = sum(r["evaluations"] for r in results)
    nontrivial: dict[str, int] = {}
    classes: dict[str, int] = {}
    samples, violations, notes = [], [], []
    excluded: dict[str, int] = {}
    known_cases: dict[str, dict] = {}
    exhaustive: dict[str, int] = {}
    budget_exhausted = False
    for r in results:
        for d, c in r["nontrivial"].items():
            nontrivial.setdefault(d, c)
        for c, v in r["classes"].items():
            classes[c] = classes.get(c, 0) + v
        for c, v in r["excluded_known"].items():
            excluded[c] = excluded.get(c, 0) + v
        for c, v in r["known_cases"].items():
            known_cases.setdefault(c, v)
        for c, v in r["exhaustive_subdomains"].items():
            exhaustive[c] = exhaustive.get(c, 0) + v
        samples.extend(r["samples"])
        violations.extend(r["violations"])
        notes.extend(r["notes"])
        budget_exhausted = budget_exhausted or r["budget_exhausted"]
    by_part: dict[str, list] = {}
    for smp in samples:
        by_part.setdefault(smp.get("part", "") if isinstance(smp, dict) else "", []).append(smp)
    samples = []
    while len(samples) < 10 and any(by_part.values()):
        for part in sorted(by_part):
            if by_part[part] and len(samples) < 10:
                samples.append(by_part[part].pop(0))
    if not samples:
        samples = [{"note": "no non-trivial case recorded"}]
    wall = time.time() - t0

    from vfw.core import load_known

    known_entries = [e for e in load_known() if e.get("property") == mod.PID and e.get("status") == "known"]
    evidence = {
        "property_id": mod.PID,
        "tier": tier,
        "seed": seed,
        "level": mod.LEVEL,
        "coverage": {
            "evaluations": evaluations,
            "distinct_nontrivial": sum(nontrivial.values()),
            "distinct_nontrivial_outer_cases": len(nontrivial),
            "rule": mod.RULE,
            "samples": samples,
            "classes": dict(sorted(classes.items())),
            "excluded_known": excluded,
            "exhaustive": False,
            "exhaustive_subdomains": exhaustive,
            "budget_exhausted": budget_exhausted,
            "shards": nshards,
            "notes": notes[:40],
            "harness_errors": harness_errors,
        },
        "assumptions": list(getattr(mod, "ASSUMPTIONS", [])),
        "wall_s": round(wall, 2),
        "violations": len(violations),
    }
    # evidence describes /repo's working tree: runs against a scratch copy (VERIF_REPO: sensitivity runs on mutants and
    # seeded changes) write theirs elsewhere so that they never replace it
    evdir = os.path.join(VERIF, "evidence")
    if os.environ.get("VERIF_REPO", "/repo").rstrip("/") != "/repo":
        evdir = os.environ.get("VERIF_EVIDENCE_DIR") or os.path.join(os.environ["VERIF_REPO"], ".vfw-evidence")
    os.makedirs(evdir, exist_ok=True)
    with open(os.path.join(evdir, f"{mod.PID}.json"), "w") as f:
        json.dump(evidence, f, indent=1, sort_keys=True)
        f.write("\n")

    for e in known_entries:
        n = excluded.get(e["key"], 0)
        if n:
            print(f"KNOWN-FINDING: property={mod.PID} {e['what']} [{e['key']}; {n} case(s) this run]")
        else:
            print(f"NOTE: listed known finding {e['key']} was not reproduced in this run")
    print(f"{mod.PID} {tier} seed={seed}: evaluations={evaluations} "
          f"distinct_nontrivial={sum(nontrivial.values())} shards={nshards} wall={wall:.1f}s "
          f"violations={len(violations)} budget_exhausted={budget_exhausted}")
    if violations:
        seen = set()
        for v in violations:
            if v["replay"] in seen:
                continue
            seen.add(v["replay"])
            print(f"  failure: {v['msg'][:600]}")
            print(f"VIOLATION property={mod.PID} replay={v['replay']}")
        return 1
    if harness_errors:
        for h in harness_errors:
            print(f"HARNESS-ERROR {h}", file=sys.stderr)
        return 2
    return 0


def main(argv=None) -> int:
    ap = argparse.ArgumentParser()
    ap.add_argument("property")
    ap.add_argument("--tier", choices=["quick", "thorough"],
                    default=os.environ.get("VERIF_TIER", "quick"))
    ap.add_argument("--replay")
    ap.add_argument("--shard")
    ap.add_argument("--out")
    ap.add_argument("--budget", default="60")
    args = ap.parse_args(argv)
    args.property = args.property.upper()
    if args.replay:
        return replay_main(args)
    if args.shard:
        return shard_main(args)
    return main_fanout(args)


if __name__ == "__main__":
    sys.exit(main())
