"""Offline dependency bootstrap.

hypothesis is normally importable in /venv already; if it is not (fresh
restore of a different image) it is installed from the offline wheelhouse into
/verif/.deps, which every check puts on sys.path.  atheris (C19 thorough tier
only) is installed the same way on demand.  Nothing is fetched from a network.
"""
from __future__ import annotations

import importlib
import os
import subprocess
import sys

HERE = os.path.dirname(os.path.abspath(__file__))
VERIF = os.path.dirname(HERE)
DEPS = os.path.join(VERIF, ".deps")
WHEELS = "/opt/veriftools/wheels"


def _add_path():
    if os.path.isdir(DEPS) and DEPS not in sys.path:
        sys.path.append(DEPS)


def _pip_install(pkg: str) -> bool:
    os.makedirs(DEPS, exist_ok=True)
    cmd = [
        sys.executable, "-m", "pip", "install", "--no-index", "--quiet",
        "--find-links", WHEELS, "--target", DEPS, pkg,
    ]
    env = dict(os.environ, PIP_NO_INDEX="1", PIP_DISABLE_PIP_VERSION_CHECK="1")
    r = subprocess.run(cmd, env=env, capture_output=True, text=True)
    if r.returncode != 0:
        sys.stderr.write(r.stdout + r.stderr)
        return False
    importlib.invalidate_caches()
    return True


def ensure(pkg: str, required: bool = True) -> bool:
    _add_path()
    try:
        importlib.import_module(pkg)
        return True
    except ImportError:
        pass
    ok = _pip_install(pkg)
    _add_path()
    if ok:
        try:
            importlib.import_module(pkg)
            return True
        except ImportError:
            ok = False
    if required:
        raise SystemExit(f"vfw.deps: cannot provide required package {pkg!r} offline")
    return False


def main() -> int:
    ensure("hypothesis", required=True)
    # atheris is optional (supplementary engine of C19 thorough)
    ensure("atheris", required=False)
    os.makedirs(os.path.join(VERIF, "evidence"), exist_ok=True)
    print("vfw.deps: ok")
    return 0


if __name__ == "__main__":
    sys.exit(main())
