"""Automatic first-order mutation of the code the properties are anchored in - sensitivity measurement.

The hand-written mutants (mutants/) and the independently written seeded changes (seeded/) sample the space of
property-breaking changes by judgement.  This tool samples it mechanically: every mutation site inside a function named
by a property's anchor (properties.jsonl, 'mechanism[].where') gets the classic first-order operators, and a mutant
counts as a *realistic change* only if the unedited baseline test suite still passes with it.  For those, the quick
checks of the properties anchored in that function are run against a scratch copy (VERIF_REPO); a mutant is 'killed' if
one of them exits 1 with a VIOLATION line.  Survivors are listed for triage (equivalent / outside every property /
gap in a generator).

    python -m vfw.automut enumerate                       # -> automut/sites.json
    python -m vfw.automut run --jobs 4 --shards 4 [--file F] [--limit N] [--resume]   # -> automut/results.jsonl
    python -m vfw.automut report                          # -> automut/REPORT.md

Nothing is ever written to /repo: each worker owns a scratch copy under /dev/shm and rewrites one file in it.
"""
from __future__ import annotations

import argparse
import ast
import copy
import hashlib
import json
import os
import re
import shutil
import subprocess
import sys
import time
from concurrent.futures import ThreadPoolExecutor

HERE = os.path.dirname(os.path.abspath(__file__))
VERIF = os.path.dirname(HERE)
REPO = "/repo"
BASE_COMMIT = "09e6783"          # the tree the anchors' line numbers refer to (before any fix: commit)
OUT = os.path.join(VERIF, "automut")
SCRATCH = f"/dev/shm/vfw-automut-{os.getpid()}"
PY = "/venv/bin/python"

# properties that observe a function although their anchor does not name it (callers found while building the checks)
EXTRA = {
    "src/cooler/_balance.py": {k: ["C10", "C11"] for k in ("_binarize", "_zero_diags", "_zero_trans", "_zero_cis", "_marginalize", "_timesouterproduct",
                                                             "_balance_genomewide", "_balance_cisonly", "_balance_transonly", "balance_cooler")},
    "src/cooler/cli/dump.py": {"make_annotator": ["C12", "C16"], "dump": ["C16"]},
    "src/cooler/cli/balance.py": {"balance": ["C11", "C10"]},
    "src/cooler/cli/cload.py": {"pairs": ["C05", "C16", "C06"]},
    "src/cooler/create/_create.py": {"create_cooler": ["C01", "C13", "C06", "C02"], "create_from_unordered": ["C06", "C13"],
                                      "create_scool": ["C17"], "_rename_chroms": ["C18"]},
    "src/cooler/cli/_util.py": {"parse_field_param": ["C16", "C07", "C08", "C09"], "check_ncpus": ["C08", "C11"], "parse_bins": ["C20", "C16"],
                                 "parse_kv_list_param": ["C16"]},
    "src/cooler/cli/zoomify.py": {"zoomify": ["C09"]},
    "src/cooler/fileops.py": {"is_multires_file": ["C09", "C15"]},
    "src/cooler/cli/load.py": {"load": ["C05", "C16", "C06", "C15"]},
    "src/cooler/core/_selectors.py": {"_IndexingMixin._process_slice": ["C03", "C14"], "_IndexingMixin._isintlike": ["C03", "C14"]},
    "src/cooler/api.py": {"annotate": ["C14", "C16"], "matrix": ["C03", "C12", "C01"], "Cooler.matrix": ["C03", "C12", "C04"]},
    "src/cooler/util.py": {"get_binsize": ["C20", "C04", "C02", "C08"], "rlencode": ["C02", "C01"], "parse_region": ["C19", "C04"],
                           "parse_cooler_uri": ["C19", "C15"], "binnify": ["C20"], "get_chromsizes": ["C20", "C02"]},
}


# --------------------------------------------------------------------------------------------- anchors -> functions
def _functions(tree):
    """(qualified name, first line, last line) of every function/method, innermost last."""
    out = []

    def walk(node, prefix):
        for ch in ast.iter_child_nodes(node):
            if isinstance(ch, (ast.FunctionDef, ast.AsyncFunctionDef)):
                out.append((prefix + ch.name, ch.lineno, ch.end_lineno))
                walk(ch, prefix + ch.name + ".")
            elif isinstance(ch, ast.ClassDef):
                walk(ch, prefix + ch.name + ".")
            else:
                walk(ch, prefix)

    walk(tree, "")
    return out


def anchored_functions():
    """{file: {function qualname: [property ids]}} from the anchors, resolved on the tree the line numbers refer to."""
    res: dict[str, dict[str, list[str]]] = {}
    for line in open(os.path.join(VERIF, "properties.jsonl")):
        p = json.loads(line)
        for mech in p["anchors"].get("mechanism", []):
            for part in mech["where"].split(";"):
                part = part.strip()
                m = re.match(r"^(\S+?):([\d,\-\s]+)$", part)
                if not m or not m.group(1).endswith(".py"):
                    continue
                f = m.group(1)
                try:
                    src = subprocess.run(["git", "-C", REPO, "show", f"{BASE_COMMIT}:{f}"], capture_output=True, text=True, check=True).stdout
                except subprocess.CalledProcessError:
                    continue
                funcs = _functions(ast.parse(src))
                for rng in m.group(2).split(","):
                    a, _, b = rng.strip().partition("-")
                    a, b = int(a), int(b or a)
                    for name, lo, hi in funcs:
                        if lo <= b and a <= hi:            # overlaps the anchored range
                            # innermost functions only would lose module-level CLI bodies; keep all overlapping
                            res.setdefault(f, {}).setdefault(name, [])
                            if p["id"] not in res[f][name]:
                                res[f][name].append(p["id"])
    for f, d in EXTRA.items():
        for name, pids in d.items():
            cur = res.setdefault(f, {}).setdefault(name, [])
            for pid in pids:
                if pid not in cur:
                    cur.append(pid)
    return res


# --------------------------------------------------------------------------------------------- operators
CMP = {ast.Lt: ast.LtE, ast.LtE: ast.Lt, ast.Gt: ast.GtE, ast.GtE: ast.Gt, ast.Eq: ast.NotEq, ast.NotEq: ast.Eq,
       ast.In: ast.NotIn, ast.NotIn: ast.In, ast.Is: ast.IsNot, ast.IsNot: ast.Is}
BIN = {ast.Add: ast.Sub, ast.Sub: ast.Add, ast.FloorDiv: ast.Mult, ast.Mod: ast.FloorDiv}
STR = {"left": "right", "right": "left", "reflect": "drop", "drop": "reflect", "sum": "max", "first": "last", "a": "w", "r+": "r",
       "symmetric-upper": "square"}
LOGGER = re.compile(r"^(logger|warnings|logging)\b")


def sites_of(tree, funcs_wanted):
    """Enumerates mutation sites. Each site's apply(node_copy_root) is realised by index: we re-walk a deep copy in the
    same order and mutate the k-th candidate."""
    sites = []
    spans = [(n, lo, hi) for n, lo, hi in _functions(tree) if n in funcs_wanted]

    def owner(lineno):
        best = None
        for n, lo, hi in spans:
            if lo <= lineno <= hi and (best is None or lo >= best[1]):
                best = (n, lo, hi)
        return best[0] if best else None

    k = 0
    for node in ast.walk(tree):
        ln = getattr(node, "lineno", None)
        if ln is None:
            continue
        fn = owner(ln)
        if fn is None:
            continue
        if isinstance(node, ast.Compare):
            for t, op in enumerate(node.ops):
                if type(op) in CMP:
                    sites.append((fn, ln, "cmp", f"{type(op).__name__}->{CMP[type(op)].__name__}", ("cmp", k, t)))
        elif isinstance(node, ast.BinOp) and type(node.op) in BIN:
            if not (isinstance(node.op, ast.Mod) and isinstance(node.left, ast.Constant) and isinstance(node.left.value, str)):
                if not (isinstance(node.op, ast.Add) and any(isinstance(x, ast.Constant) and isinstance(x.value, str) for x in (node.left, node.right))):
                    sites.append((fn, ln, "bin", f"{type(node.op).__name__}->{BIN[type(node.op)].__name__}", ("bin", k, 0)))
        elif isinstance(node, ast.BoolOp):
            sites.append((fn, ln, "bool", "and<->or", ("bool", k, 0)))
        elif isinstance(node, ast.UnaryOp) and isinstance(node.op, ast.Not):
            sites.append((fn, ln, "not", "drop not", ("not", k, 0)))
        elif isinstance(node, ast.Constant):
            v = node.value
            if isinstance(v, bool):
                sites.append((fn, ln, "const", f"{v}->{not v}", ("const", k, not v)))
            elif isinstance(v, int) and -1 <= v <= 3:
                sites.append((fn, ln, "const", f"{v}->{v + 1}", ("const", k, v + 1)))
                if v >= 1:
                    sites.append((fn, ln, "const", f"{v}->{v - 1}", ("const", k, v - 1)))
            elif isinstance(v, str) and v in STR:
                sites.append((fn, ln, "const", f"{v!r}->{STR[v]!r}", ("const", k, STR[v])))
        elif isinstance(node, ast.Expr) and isinstance(node.value, ast.Call):
            txt = ast.unparse(node.value)
            if not LOGGER.match(txt) and not txt.startswith(("print(", "click.echo(")):
                sites.append((fn, ln, "del", f"delete `{txt[:60]}`", ("del", k, 0)))
        elif isinstance(node, ast.AugAssign):
            sites.append((fn, ln, "del", f"delete `{ast.unparse(node)[:60]}`", ("del", k, 0)))
        elif isinstance(node, ast.If) and not node.orelse and len(node.body) == 1 and isinstance(node.body[0], (ast.Raise,)):
            pass        # removing a guard that only raises: covered by cmp/bool operators on its condition
        k += 1
    return sites


def mutate_source(src, funcs_wanted, spec):
    """Re-enumerates in the same order as sites_of and mutates the matching node; returns new source."""
    kind, idx, arg = spec
    tree = ast.parse(src)
    spans = [(n, lo, hi) for n, lo, hi in _functions(tree) if n in funcs_wanted]

    def inside(lineno):
        return any(lo <= lineno <= hi for _, lo, hi in spans)

    k = 0
    parents = {}
    for parent in ast.walk(tree):
        for ch in ast.iter_child_nodes(parent):
            parents[id(ch)] = parent
    for node in ast.walk(tree):
        ln = getattr(node, "lineno", None)
        if ln is None or not inside(ln):
            continue
        if k == idx:
            if kind == "cmp":
                node.ops[arg] = CMP[type(node.ops[arg])]()
            elif kind == "bin":
                node.op = BIN[type(node.op)]()
            elif kind == "bool":
                node.op = ast.Or() if isinstance(node.op, ast.And) else ast.And()
            elif kind == "not":
                par = parents[id(node)]
                for field, val in ast.iter_fields(par):
                    if val is node:
                        setattr(par, field, node.operand)
                    elif isinstance(val, list):
                        for t, x in enumerate(val):
                            if x is node:
                                val[t] = node.operand
            elif kind == "const":
                node.value = arg
            elif kind == "del":
                par = parents[id(node)]
                for field, val in ast.iter_fields(par):
                    if isinstance(val, list):
                        for t, x in enumerate(val):
                            if x is node:
                                val[t] = ast.copy_location(ast.Pass(), node)
            ast.fix_missing_locations(tree)
            return ast.unparse(tree) + "\n"
        k += 1
    raise RuntimeError(f"site {spec} not found")


def enumerate_all():
    anchored = anchored_functions()
    out = []
    for f, fmap in sorted(anchored.items()):
        path = os.path.join(REPO, f)
        if not os.path.exists(path):
            continue
        src = open(path).read()
        tree = ast.parse(src)
        for fn, ln, op, desc, spec in sites_of(tree, set(fmap)):
            # properties: those of the innermost anchored function plus those of enclosing anchored functions
            pids = []
            for name in fmap:
                if fn == name or fn.startswith(name + "."):
                    for pid in fmap[name]:
                        if pid not in pids:
                            pids.append(pid)
            mid = hashlib.sha1(f"{f}|{fn}|{ln}|{desc}|{spec}".encode()).hexdigest()[:10]
            out.append({"id": mid, "file": f, "func": fn, "line": ln, "op": op, "desc": desc, "spec": list(spec), "props": pids})
    return anchored, out


# --------------------------------------------------------------------------------------------- running
SPEED = ["C20", "C19", "C18", "C17", "C14", "C12", "C07", "C08", "C09", "C13", "C06", "C03", "C04", "C02", "C05", "C16", "C15", "C01", "C10", "C11"]


def _prepare_worker(w):
    d = os.path.join(SCRATCH, f"w{w}")
    shutil.rmtree(d, ignore_errors=True)
    os.makedirs(d)
    repo = os.path.join(d, "repo")
    subprocess.run(["rsync", "-a", "--exclude", ".git", "--exclude", "__pycache__", "--exclude", "*.egg-info", REPO + "/", repo + "/"], check=True)
    os.makedirs(os.path.join(d, "tmp"), exist_ok=True)
    return d


def _run_tests(wd):
    repo = os.path.join(wd, "repo")
    tmp = os.path.join(wd, "tmp")
    shutil.rmtree(tmp, ignore_errors=True)
    os.makedirs(tmp)
    env = dict(os.environ, PYTHONPATH=os.path.join(repo, "src"), TMPDIR=tmp, PYTHONDONTWRITEBYTECODE="1")
    try:
        r = subprocess.run([PY, "-m", "pytest", "-q", "-x", "-p", "no:cacheprovider", "--no-cov", "--timeout=600",
                            "--deselect", "tests/test_create.py::test_roundtrip"], cwd=repo, env=env, capture_output=True, text=True, timeout=1500)
    except subprocess.TimeoutExpired:
        return False, "timeout"
    tail = (r.stdout.strip().splitlines() or [""])[-1]
    return r.returncode == 0, tail


def _run_check(wd, pid, shards):
    repo = os.path.join(wd, "repo")
    env = dict(os.environ, VERIF_REPO=repo, VERIF_SHARDS=str(shards), PYTHONHASHSEED="0", PYTHONDONTWRITEBYTECODE="1",
               TMPDIR=os.path.join(wd, "tmp"), VERIF_EVIDENCE_DIR=os.path.join(wd, "evidence"))
    try:
        r = subprocess.run([PY, "-m", "vfw.check", pid, "--tier", "quick"], cwd=VERIF, env=env, capture_output=True, text=True, timeout=3000)
    except subprocess.TimeoutExpired:
        return 3, "timeout"
    lines = [ln for ln in r.stdout.splitlines() if ln.strip().startswith("failure:")]
    exhausted = "budget_exhausted=True" in r.stdout
    msg = lines[0].strip()[:240] if lines else (r.stderr.strip().splitlines() or [""])[-1][:240]
    if r.returncode == 0 and exhausted:
        msg = "budget exhausted (inconclusive)"
    return r.returncode, msg


def run_one(w, wd, site, anchored, shards, skip_tests=False, tests_only=False):
    f = site["file"]
    path = os.path.join(wd, "repo", f)
    orig = open(os.path.join(REPO, f)).read()
    res = dict(site)
    t0 = time.time()
    try:
        new = mutate_source(orig, set(anchored[f]), tuple(site["spec"]))
    except Exception as e:      # noqa: BLE001
        res.update(status="error", detail=f"mutate: {e!r}")
        return res
    try:
        compile(new, f, "exec")
    except SyntaxError as e:
        res.update(status="invalid", detail=str(e))
        return res
    open(path, "w").write(new)
    try:
        if not skip_tests:
            ok, tail = _run_tests(wd)
            res["tests"] = tail
            if not ok:
                res.update(status="killed-by-tests", secs=round(time.time() - t0, 1))
                return res
            if tests_only:
                res.update(status="passes-tests", secs=round(time.time() - t0, 1))
                return res
        order = sorted(site["props"], key=SPEED.index)
        res["checked"] = []
        for pid in order:
            rc, msg = _run_check(wd, pid, shards)
            res["checked"].append([pid, rc, msg])
            if rc == 1:
                res.update(status="killed", by=pid, detail=msg, secs=round(time.time() - t0, 1))
                return res
            if rc not in (0, 1):
                res.update(status="harness-error", by=pid, detail=msg, secs=round(time.time() - t0, 1))
                return res
        inconclusive = any(c[2].startswith("budget exhausted") for c in res["checked"])
        res.update(status="inconclusive" if inconclusive else "survived", secs=round(time.time() - t0, 1))
        return res
    finally:
        open(path, "w").write(orig)


def main():
    ap = argparse.ArgumentParser()
    ap.add_argument("cmd", choices=["enumerate", "run", "report", "show"])
    ap.add_argument("target", nargs="?")
    ap.add_argument("--jobs", type=int, default=4)
    ap.add_argument("--shards", type=int, default=4)
    ap.add_argument("--file")
    ap.add_argument("--limit", type=int)
    ap.add_argument("--ops")
    ap.add_argument("--resume", action="store_true")
    ap.add_argument("--skip-tests", action="store_true")
    ap.add_argument("--ids", help="comma separated mutant ids (re-check of survivors after a check was strengthened)")
    ap.add_argument("--props", help="comma separated properties to run instead of the anchored ones")
    ap.add_argument("--survivors", action="store_true", help="re-run the mutants whose latest status is 'survived'")
    ap.add_argument("--tests-only", action="store_true", help="phase A: only decide whether the baseline suite still passes")
    ap.add_argument("--checks-only", action="store_true", help="phase B: run the property checks for mutants recorded as passes-tests")
    a = ap.parse_args()
    os.makedirs(OUT, exist_ok=True)
    if a.cmd == "enumerate":
        anchored, sites = enumerate_all()
        json.dump({"anchored": anchored, "sites": sites}, open(os.path.join(OUT, "sites.json"), "w"), indent=0)
        by = {}
        for s in sites:
            by.setdefault(s["file"], []).append(s)
        for f, ss in by.items():
            ops = {}
            for s in ss:
                ops[s["op"]] = ops.get(s["op"], 0) + 1
            print(f"{f}: {len(ss)} sites {ops}; functions {len(anchored[f])}")
        print("total", len(sites))
        return
    if a.cmd == "show":
        d = json.load(open(os.path.join(OUT, "sites.json")))
        site = next(s for s in d["sites"] if s["id"] == a.target)
        orig = open(os.path.join(REPO, site["file"])).read()
        new = mutate_source(orig, set(d["anchored"][site["file"]]), tuple(site["spec"]))
        import difflib
        base = ast.unparse(ast.parse(orig)) + "\n"
        print(json.dumps(site))
        print("".join(difflib.unified_diff(base.splitlines(True), new.splitlines(True), "a/" + site["file"], "b/" + site["file"], n=2)))
        return
    if a.cmd == "run":
        d = json.load(open(os.path.join(OUT, "sites.json")))
        anchored, sites = d["anchored"], d["sites"]
        if a.file:
            sites = [s for s in sites if a.file in s["file"]]
        if a.ops:
            sites = [s for s in sites if s["op"] in a.ops.split(",")]
        resf = os.path.join(OUT, "results.jsonl")
        done = set()
        if a.resume and os.path.exists(resf):
            done = {json.loads(l)["id"] for l in open(resf)}
        if a.ids or a.survivors:
            last = {}
            for l in open(resf):
                r = json.loads(l)
                last[r["id"]] = r["status"]
            want = set(a.ids.split(",")) if a.ids else {k for k, v in last.items() if v in ("survived", "inconclusive", "harness-error")}
            sites = [dict(s_, props=(a.props.split(",") if a.props else s_["props"])) for s_ in sites if s_["id"] in want]
            a.skip_tests = True
        elif a.checks_only:
            last = {}
            for l in open(resf):
                r = json.loads(l)
                last[r["id"]] = r["status"]
            sites = [s for s in sites if last.get(s["id"]) == "passes-tests"]
            a.skip_tests = True
        else:
            sites = [s for s in sites if s["id"] not in done]
        if a.limit:
            sites = sites[: a.limit]
        print(f"{len(sites)} mutants to run, {a.jobs} workers x {a.shards} shards", flush=True)
        wds = [_prepare_worker(w) for w in range(a.jobs)]
        import queue
        import threading

        q = queue.Queue()
        for s in sites:
            q.put(s)
        lock = threading.Lock()

        def worker(w):
            while True:
                try:
                    s = q.get_nowait()
                except queue.Empty:
                    return
                r = run_one(w, wds[w], s, anchored, a.shards, a.skip_tests, a.tests_only)
                with lock:
                    with open(resf, "a") as f:
                        f.write(json.dumps(r) + "\n")
                    print(f"[{r['status']}] {r['file'].split('/')[-1]}:{r['func']}:{r['line']} {r['desc']} {r.get('by', '')} {str(r.get('detail', ''))[:100]}", flush=True)

        with ThreadPoolExecutor(a.jobs) as ex:
            list(ex.map(worker, range(a.jobs)))
        shutil.rmtree(SCRATCH, ignore_errors=True)
        return
    if a.cmd == "report":
        resf = os.path.join(OUT, "results.jsonl")
        rs = {}
        for l in open(resf):
            r = json.loads(l)
            rs[r["id"]] = r
        rs = list(rs.values())
        tri = {}
        tf = os.path.join(OUT, "triage.json")
        if os.path.exists(tf):
            tri = json.load(open(tf))
        cnt = {}
        for r in rs:
            cnt[r["status"]] = cnt.get(r["status"], 0) + 1
        with open(os.path.join(OUT, "REPORT.md"), "w") as f:
            f.write("# Automatic first-order mutants of the anchored functions\n\n")
            f.write(f"{len(rs)} mutants: " + ", ".join(f"{k} {v}" for k, v in sorted(cnt.items())) + "\n\n")
            live = [r for r in rs if r["status"] in ("killed", "survived", "harness-error")]
            f.write(f"Passing the baseline suite (= realistic by the task's definition): {len(live)}; killed by a property check: "
                    f"{sum(r['status'] == 'killed' for r in live)}; survived: {sum(r['status'] == 'survived' for r in live)}.\n\n")
            f.write("## Survivors and their triage\n\n| id | where | mutation | checks run | triage |\n|---|---|---|---|---|\n")
            for r in live:
                if r["status"] != "killed":
                    f.write(f"| {r['id']} | {r['file'].replace('src/cooler/', '')}:{r['func']}:{r['line']} | {r['desc']} | "
                            f"{','.join(c[0] for c in r.get('checked', []))} | {tri.get(r['id'], 'untriaged')} |\n")
            f.write("\n## Killed by a property check\n\n| where | mutation | by | first failure |\n|---|---|---|---|\n")
            for r in live:
                if r["status"] == "killed":
                    f.write(f"| {r['file'].replace('src/cooler/', '')}:{r['func']}:{r['line']} | {r['desc']} | {r['by']} | {str(r.get('detail', '')).replace('|', '/')[:140]} |\n")
        print(cnt)


if __name__ == "__main__":
    main()
