"""Sensitivity validation helper (not a registered check).

    python -m vfw.mutate C01 mutants/C01-1.patch [--tier quick] [--tests tests/test_create.py ...]

Copies /repo (tracked files of the working tree) to a scratch directory outside
/repo and /verif, applies the patch there, optionally runs the named baseline
test files against the copy (to confirm the mutant survives them), then runs the
property's check with VERIF_REPO pointing at the copy and reports whether it
was caught (exit 1).  The copy is deleted afterwards.

A patch file may also be a JSON spec {"property":..,"why":..,"replace":[{"file","old","new"}]}
(literal replacement, exactly one occurrence required) when it ends in .json
"""
from __future__ import annotations

import argparse
import os
import shutil
import subprocess
import sys
import tempfile

VERIF = os.path.dirname(os.path.dirname(os.path.abspath(__file__)))


def make_copy() -> str:
    base = "/dev/shm" if os.path.isdir("/dev/shm") else tempfile.gettempdir()
    d = tempfile.mkdtemp(prefix="vfw-mutant-", dir=base)
    subprocess.run(["rsync", "-a", "--exclude", ".git", "--exclude", "htmlcov", "--exclude", "__pycache__",
                    "/repo/", d + "/"], check=True)
    return d


def apply(copy: str, patch: str):
    if patch.endswith(".json"):
        import json

        with open(patch) as f:
            spec = json.load(f)
        for r in spec["replace"]:
            p = os.path.join(copy, r["file"])
            s = open(p).read()
            if s.count(r["old"]) != 1:
                raise SystemExit(f"{patch}: {r['old']!r} occurs {s.count(r['old'])} times in {r['file']}")
            open(p, "w").write(s.replace(r["old"], r["new"]))
    else:
        subprocess.run(["git", "apply", "--unsafe-paths", "--directory", copy, os.path.abspath(patch)],
                       check=True, cwd="/")


def main():
    ap = argparse.ArgumentParser()
    ap.add_argument("property")
    ap.add_argument("patch")
    ap.add_argument("--tier", default="quick")
    ap.add_argument("--tests", nargs="*", default=[])
    ap.add_argument("--shards", default=None)
    ap.add_argument("--budget", default=None)
    args = ap.parse_args()
    copy = make_copy()
    try:
        apply(copy, args.patch)
        if args.tests:
            r = subprocess.run(["/venv/bin/python", "-m", "pytest", "-q", "-x", "-p", "no:cacheprovider", "--no-cov",
                                *args.tests], cwd=copy, env=dict(os.environ, PYTHONPATH=os.path.join(copy, "src")),
                               capture_output=True, text=True)
            print("baseline subset on mutant:", "PASS" if r.returncode == 0 else "FAIL")
            if r.returncode != 0:
                print(r.stdout[-1500:])
        env = dict(os.environ, VERIF_REPO=copy)
        if args.shards:
            env["VERIF_SHARDS"] = args.shards
        if args.budget:
            env["VERIF_BUDGET"] = args.budget
        r = subprocess.run(["/venv/bin/python", "-m", "vfw.check", args.property, "--tier", args.tier],
                           cwd=VERIF, env=env, capture_output=True, text=True)
        tail = "\n".join(r.stdout.strip().splitlines()[-4:])
        verdict = {0: "MISSED", 1: "CAUGHT", 2: "HARNESS-ERROR"}.get(r.returncode, f"exit {r.returncode}")
        print(f"{os.path.basename(args.patch)} vs {args.property}: {verdict}\n{tail}")
        if r.returncode == 2:
            print(r.stderr[-1500:])
        return 0 if r.returncode == 1 else 1
    finally:
        shutil.rmtree(copy, ignore_errors=True)


if __name__ == "__main__":
    sys.exit(main())
