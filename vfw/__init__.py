"""vfw - property-based verification framework for open2c/cooler (see /verif/DESIGN.md)."""
