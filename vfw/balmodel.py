"""Dense reference for matrix balancing (C10, C11).  Never calls cooler.

The reference follows the documented procedure of ``balance_cooler`` on the
dense symmetric matrix: bin-level filters on the filtered matrix, then
iterative correction (divide the weights by the marginals normalised to their
non-zero mean until the variance of the non-zero marginals drops below tol).

``diag_weight`` selects how a diagonal entry contributes to a row marginal:
1 = true row sums, 2 = the implementation's convention when the main diagonal
is not ignored (known finding C10-diag-twice); ``use_cweights`` selects the
implementation's trans-only convention (known finding C10-trans-cweights).
"""
from __future__ import annotations

import numpy as np


def chrom_ids(offsets, n):
    ids = np.zeros(n, dtype=int)
    for c, (lo, hi) in enumerate(zip(offsets[:-1], offsets[1:])):
        ids[lo:hi] = c
    return ids


def filtered(A, offsets, cis_only=False, trans_only=False, ignore_diags=0, diag_weight=1):
    """Dense matrix seen by the marginals: excluded diagonals / cis / trans part zeroed."""
    n = A.shape[0]
    F = np.array(A, dtype=float)
    i, j = np.indices((n, n))
    if ignore_diags:
        F[np.abs(i - j) < ignore_diags] = 0
    cid = chrom_ids(offsets, n)
    same = cid[:, None] == cid[None, :]
    if cis_only:
        F[~same] = 0
    if trans_only:
        F[same] = 0
    if diag_weight != 1:
        F[np.arange(n), np.arange(n)] *= diag_weight
    return F


def bin_masks(A, offsets, opts, diag_weight=1):
    """Three-valued reference of the documented bin filters.

    Returns (must_mask, tie) boolean arrays over bins; a bin that is neither is 'must keep' as far as
    the filters are concerned.  The filters see the matrix with the base filters applied (cis_only /
    ignore_diags), as the procedure computes them before any balancing.
    """
    n = A.shape[0]
    F = filtered(A, offsets, cis_only=opts["cis_only"], trans_only=False, ignore_diags=opts["ignore_diags"],
                 diag_weight=diag_weight)
    must = np.zeros(n, dtype=bool)
    tie = np.zeros(n, dtype=bool)
    x0 = opts.get("x0")
    if x0 is not None:
        x0 = np.array([np.nan if v is None else v for v in x0], dtype=float)
        must |= np.isnan(x0) | (x0 == 0)
    if opts["min_nnz"] > 0:
        B = (F != 0).astype(float)
        if diag_weight != 1:
            B[np.arange(n), np.arange(n)] *= diag_weight
        must |= B.sum(axis=1) < opts["min_nnz"]
    marg = F.sum(axis=1)
    if opts["min_count"]:
        must |= marg < opts["min_count"]
    if opts["mad_max"] > 0:
        m = marg.copy()
        with np.errstate(all="ignore"):
            for lo, hi in zip(offsets[:-1], offsets[1:]):
                c = m[lo:hi]
                pos = c[c > 0]
                m[lo:hi] = c / (np.median(pos) if len(pos) else np.nan)
            lz = np.log(m[m > 0])
            if len(lz):
                med = np.median(lz)
                dev = np.median(np.abs(lz - med))
                cutoff = np.exp(med - opts["mad_max"] * dev)
                near = np.isclose(m, cutoff, rtol=1e-9, atol=0)
                if cutoff == 1.0:
                    # MAD = 0 and median log-marginal 0: log and exp are exact here, so a normalised marginal of
                    # exactly 1.0 is not "less than" the cut-off and the documented (strict) filter keeps the bin
                    near &= ~(m == 1.0)
                must |= (m < cutoff) & ~near
                tie |= near
    if opts.get("blacklist"):
        must[np.array(opts["blacklist"], dtype=int)] = True
    return must, tie


def ic_dense(A, offsets, opts, diag_weight=1, use_cweights=False):
    """Reference balancing. Returns dict(weights, scale, var, converged, variances, n_nonzero)."""
    n = A.shape[0]
    must, _ = bin_masks(A, offsets, opts, diag_weight)
    x0 = opts.get("x0")
    bias = np.ones(n) if x0 is None else np.array([0.0 if v is None else v for v in x0], dtype=float)
    bias[np.isnan(bias)] = 0
    bias[must] = 0
    F = filtered(A, offsets, cis_only=opts["cis_only"], trans_only=opts["trans_only"],
                 ignore_diags=opts["ignore_diags"], diag_weight=diag_weight)
    tol, max_iters = opts["tol"], opts["max_iters"]
    variances = []

    def sweep(lo, hi, cw):
        """Balance rows lo:hi against the whole (filtered) matrix; mutates bias[lo:hi]."""
        var = np.nan
        nz = np.array([])
        scale = 1.0
        for _ in range(max_iters):
            # bins already marked NaN (an earlier chromosome without data) count as excluded, i.e. 0
            v = np.where(np.isfinite(bias), bias, 0.0) * cw
            marg = (F * np.outer(v, v)).sum(axis=1)[lo:hi]
            nz = marg[marg != 0]
            if not len(nz):
                bias[lo:hi] = np.nan
                return np.nan, 0.0, 0
            d = marg / nz.mean()
            d[d == 0] = 1
            bias[lo:hi] /= d
            var = nz.var()
            variances.append(float(var))
            if var < tol:
                break
        scale = nz.mean()
        b = bias[lo:hi]
        b[b == 0] = np.nan
        if opts["rescale"]:
            bias[lo:hi] = b / np.sqrt(scale)
        return scale, var, len(nz)

    ones = np.ones(n)
    if opts["cis_only"]:
        scales, vars_, nnzs = [], [], []
        for lo, hi in zip(offsets[:-1], offsets[1:]):
            s, v, k = sweep(lo, hi, ones)
            scales.append(s)
            vars_.append(v)
            nnzs.append(k)
        scale, var, nnz_m = np.array(scales), np.array(vars_), np.array(nnzs)
    else:
        cw = ones
        if opts["trans_only"] and use_cweights:
            cw = 1.0 / np.concatenate([[1 - (hi - lo) / n] * (hi - lo) for lo, hi in zip(offsets[:-1], offsets[1:])])
        scale, var, nnz_m = sweep(0, n, cw)
    with np.errstate(invalid="ignore"):
        conv = np.asarray(var) < tol
    return {"weights": bias, "scale": scale, "var": var, "converged": conv, "variances": variances, "n_nonzero": nnz_m}


def flatness_excess(A, offsets, opts, w, scale, diag_weight=1, use_cweights=False):
    """Worst ratio |s_i - 1| / bound over the retained bins with data, per block; >1 means not flat.

    Returns (worst_ratio, n_checked, detail).  Bound: e/(1-e), e = sqrt(n_nonzero * tol)/scale (see DESIGN C10).
    """
    n = A.shape[0]
    F = filtered(A, offsets, cis_only=opts["cis_only"], trans_only=opts["trans_only"],
                 ignore_diags=opts["ignore_diags"], diag_weight=diag_weight)
    v = np.array(w, dtype=float)
    if opts["trans_only"] and use_cweights:
        v = v / np.concatenate([[1 - (hi - lo) / n] * (hi - lo) for lo, hi in zip(offsets[:-1], offsets[1:])])
    fin = np.isfinite(v)
    vv = np.where(fin, v, 0.0)
    S = (F * np.outer(vv, vv)).sum(axis=1)
    blocks = list(zip(offsets[:-1], offsets[1:])) if opts["cis_only"] else [(0, n)]
    scales = np.atleast_1d(scale) if opts["cis_only"] else [scale]
    worst, checked, detail = 0.0, 0, ""
    for (lo, hi), sc in zip(blocks, scales):
        rows = [i for i in range(lo, hi) if fin[i] and S[i] != 0]
        if not rows or not np.isfinite(sc) or sc <= 0:
            continue
        e = np.sqrt(len(rows) * opts["tol"]) / sc
        if e >= 1:
            continue
        bound = e / (1 - e) + 1e-9
        target = 1.0 if opts["rescale"] else sc
        for i in rows:
            dev = abs(S[i] / target - 1.0)
            checked += 1
            if dev / bound > worst:
                worst = dev / bound
                detail = f"bin {i}: row sum {S[i]:.6g} (target {target:.6g}), |dev| {dev:.3g} > bound {bound:.3g}"
    return worst, checked, detail
