#!/bin/bash
# Runs every property's quick check at the given seeds on the current /repo tree; prints one line per run and a
# summary of anything that is not "exit 0, no VIOLATION line".   usage: tools/quiet_sweep.sh "1 2 3" [PIDs...]
cd /verif
seeds=${1:-"1 2 3"}; shift
pids=${@:-C01 C02 C03 C04 C05 C06 C07 C08 C09 C10 C11 C12 C13 C14 C15 C16 C17 C18 C19 C20}
bad=0
for sd in $seeds; do for p in $pids; do
  out=$(VERIF_SEED=$sd PYTHONHASHSEED=0 /venv/bin/python -m vfw.check $p --tier quick 2>&1); rc=$?
  line=$(echo "$out" | grep "quick seed" | tail -1)
  echo "seed=$sd rc=$rc $line"
  if [ $rc -ne 0 ] || echo "$out" | grep -q "^VIOLATION"; then bad=$((bad+1)); echo "$out" | grep -v "^KNOWN\|^NOTE" | tail -5; fi
done; done
echo "not quiet: $bad"
