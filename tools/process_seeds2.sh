#!/bin/bash
# round 2: /tmp/wt2/<PID>/_seeded/{A,B} are adopted as <PID>-C and <PID>-D
cd /verif
declare -A MAP=( [A]=C [B]=D )
for p in "$@"; do for x in A B; do
  d=/tmp/wt2/$p/_seeded/$x
  [ -f $d/patch.diff ] || { echo "missing $d"; continue; }
  [ -f /tmp/wt2/verify_${p}_$x.json ] && continue
  /venv/bin/python -m vfw.seeded verify $d > /tmp/wt2/verify_${p}_$x.json 2>/tmp/wt2/verify_${p}_$x.err &
done; done
wait
for p in "$@"; do for x in A B; do
  v=/tmp/wt2/verify_${p}_$x.json
  [ -f $v ] || continue
  ok=$(/venv/bin/python -c "import json;print(json.load(open('$v')).get('ok'))" 2>/dev/null)
  echo "$p-${MAP[$x]} verify ok=$ok"
  if [ "$ok" = "True" ]; then /venv/bin/python -m vfw.seeded adopt /tmp/wt2/$p/_seeded/$x --id $p-${MAP[$x]} --prop $p --verify-json $v; fi
done; done
