"""Prints the per-property volume table for DESIGN.md 9.2 from evidence/*.json (last quick run of each property)."""
import glob
import json
import os

HERE = os.path.dirname(os.path.dirname(os.path.abspath(__file__)))
print("| property | tier / seed | evaluations | distinct non-trivial | exhaustive inner domains | known-finding cases | wall s |")
print("|---|---|---|---|---|---|---|")
for f in sorted(glob.glob(os.path.join(HERE, "evidence", "C*.json"))):
    e = json.load(open(f))
    c = e["coverage"]
    ex = "; ".join(sorted(c.get("exhaustive_subdomains", {}))) or "-"
    kn = ", ".join(f"{k}: {v}" for k, v in sorted(c.get("excluded_known", {}).items())) or "-"
    print(f"| {e['property_id']} | {e['tier']} / {e['seed']} | {c['evaluations']} | {c['distinct_nontrivial']} | {ex[:150]} | {kn} | {e['wall_s']} |")
