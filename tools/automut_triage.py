"""Writes automut/triage.json: a reason for every automatic mutant that passes the baseline suite and is not killed by a
property check.  The reasons were established by reading the mutated line in context (see DESIGN.md 9.7); rules are keyed
by (file, line[, description]) of the unchanged tree at /repo HEAD."""
import json
import os

HERE = os.path.dirname(os.path.dirname(os.path.abspath(__file__)))

EQ = "equivalent: "
OUT = "outside the listed properties: "
RULES = [
    # (file suffix, lines or None, substring of desc or None, reason)
    (None, None, "stacklevel", EQ + "stack level of a warning"),
    ("_balance.py", [110, 178, 246, 464], "Lt->LtE", EQ + "differs only when var == tol exactly; the checks treat |var - tol| <= 1e-6 tol as a tie"),
    ("_balance.py", [279], None, EQ + "use_lock default: locking only"),
    ("_reduce.py", [93, 97, 98, 103, 113, 125, 126, 130], None, EQ + "epoch partition / warning bookkeeping of the k-way merge: the merged result is the same for every partition (which is C06/C07's metamorphic relation)"),
    ("_reduce.py", [162], None, EQ + "additionally compares the first input with itself"),
    ("_reduce.py", [188], None, EQ + "adds an empty first epoch"),
    ("_reduce.py", [195], None, EQ + "keeps / drops zero-length slices before concatenation"),
    ("_reduce.py", [320, 322], None, EQ + "assertion on / chunking of the row partition (performance only)"),
    ("_reduce.py", [766], None, EQ + "nproc default 1 -> 0: both mean 'no pool'"),
    ("api.py", [529, 676, 679, 681], None, EQ + "default of a module-level helper whose only callers (Cooler.pixels / Cooler.matrix) pass the argument"),
    ("api.py", [626, 642], None, EQ + "copy flag of an astype"),
    ("api.py", [628, 635, 651], None, EQ + "value used only when the pixel frame is empty"),
    ("api.py", [629, 645], None, EQ + "choice between two equivalent annotation strategies (window vs. whole table)"),
    ("api.py", [611], None, EQ + "reads one bin row more than needed; rows are taken by position relative to the first index"),
    ("api.py", [518], None, EQ + "'ordered' flag of the categorical dtype; labels and codes unchanged"),
    ("_tableops.py", [103], None, EQ + "'ordered' flag of the categorical dtype; labels and codes unchanged"),
    ("_ingest.py", [85], None, EQ + "'ordered' flag of the categorical dtype; codes unchanged"),
    ("util.py", [339], None, EQ + "'ordered' flag of the categorical dtype; labels and codes unchanged"),
    ("_tableops.py", [29, 41], None, EQ + "typing overload stub, never executed"),
    ("_rangequery.py", [185], None, EQ + "early exit for empty windows; the general path returns the same empty result"),
    ("_rangequery.py", [209], None, EQ + "default of an argument every caller passes"),
    ("_rangequery.py", [526], None, EQ + "tie in the choice of the transposed query (both give the same window)"),
    ("_rangequery.py", [148], None, EQ + "number of read chunks (C03: result independent of chunk size)"),
    ("_create.py", [258], None, EQ + "explicit flush before the file is closed"),
    ("_create.py", [284], None, EQ + "bin1_offset[0] is 0 either way"),
    ("_create.py", [492, 496, 497, 498], None, EQ + "default of the low-level create(); create_cooler / create_scool pass every flag"),
    ("_create.py", [663, 683], None, EQ + "maximum dataset size only becomes larger"),
    ("_create.py", [761, 762], None, OUT + "where the scratch files are put when temp_dir is not given (C06 only requires that none outlives the run)"),
    ("_create.py", [789], None, EQ + "one- vs two-pass merge at the threshold: same result (C06)"),
    ("_create.py", [797, 830], None, EQ + "bookkeeping list of scratch files (Windows-only clean-up path); the files are removed when the objects are released"),
    ("_ingest.py", [1055], None, EQ + "compares with the other dimension of a square array"),
    ("fileops.py", [155], None, EQ + "an empty 'resolutions' group yields False either way"),
    ("fileops.py", [159], None, OUT + "min_version handling of the legacy layout"),
    ("fileops.py", [295], None, OUT + "guard against contradictory flag combinations of an internal helper"),
    ("util.py", [409, 410], None, EQ + "set of 'last bin' sizes becomes a superset / early return only; the final decision is unchanged"),
    ("util.py", [452, 820], None, EQ + "always takes the search path, which gives the same rows for whole-chromosome regions"),
    ("cload.py", [614, 616], None, EQ + "branch for pandas 1.x, not taken with the installed pandas"),
    ("cload.py", [630], None, EQ + "iterator=True is implied by chunksize"),
    ("balance.py", [246, 270, 271, 265], None, EQ + "creates / closes a one-worker pool, lock flag: results identical"),
]


def main():
    last = {}
    for l in open(os.path.join(HERE, "automut", "results.jsonl")):
        r = json.loads(l)
        last[r["id"]] = r
    tri_path = os.path.join(HERE, "automut", "triage.json")
    manual = {}
    mp = os.path.join(HERE, "automut", "triage_manual.json")
    if os.path.exists(mp):
        manual = json.load(open(mp))
    src = {}
    tri, untriaged = {}, []
    for r in last.values():
        if r["status"] not in ("survived", "inconclusive", "harness-error"):
            continue
        if r["id"] in manual:
            tri[r["id"]] = manual[r["id"]]
            continue
        f = r["file"]
        if f not in src:
            src[f] = open(os.path.join("/repo", f)).read().split("\n")
        text = src[f][r["line"] - 1]
        reason = None
        for suf, lines, sub, why in RULES:
            if suf and not f.endswith("/" + suf):
                continue
            if lines and r["line"] not in lines:
                continue
            if sub and sub not in r["desc"] and sub not in text:
                continue
            reason = why
            break
        if reason:
            tri[r["id"]] = reason
        else:
            untriaged.append((f.split("/")[-1], r["line"], r["desc"], r["id"], r["status"]))
    json.dump(tri, open(tri_path, "w"), indent=0, sort_keys=True)
    print(len(tri), "triaged;", len(untriaged), "untriaged")
    for u in sorted(untriaged):
        print("  ", u)


if __name__ == "__main__":
    main()
