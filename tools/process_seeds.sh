#!/bin/bash
# usage: tools/process_seeds.sh C03 C05 ...   -> verifies /tmp/wt/<PID>/_seeded/{A,B} in parallel, adopts confirmed ones
cd /verif
for p in "$@"; do for x in A B; do
  d=/tmp/wt/$p/_seeded/$x
  [ -f $d/patch.diff ] || { echo "missing $d"; continue; }
  [ -f /tmp/wt/verify_${p}_$x.json ] && continue
  /venv/bin/python -m vfw.seeded verify $d > /tmp/wt/verify_${p}_$x.json 2>/tmp/wt/verify_${p}_$x.err &
done; done
wait
for p in "$@"; do for x in A B; do
  v=/tmp/wt/verify_${p}_$x.json
  [ -f $v ] || continue
  ok=$(/venv/bin/python -c "import json;print(json.load(open('$v')).get('ok'))" 2>/dev/null)
  echo "$p-$x verify ok=$ok"
  if [ "$ok" = "True" ]; then /venv/bin/python -m vfw.seeded adopt /tmp/wt/$p/_seeded/$x --id $p-$x --prop $p --verify-json $v; fi
done; done
