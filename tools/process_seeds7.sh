#!/bin/bash
# round 7 (one property per author; two sites, histories, fault points): /tmp/wt7/<file>/_seeded/{A,B}; property from the first line of notes.md; adopted as R7-<file>-<X>
cd /verif
for p in "$@"; do for x in A B; do
  d=/tmp/wt7/$p/_seeded/$x
  [ -f $d/patch.diff ] || { echo "missing $d"; continue; }
  [ -f /tmp/wt7/verify_${p}_$x.json ] && continue
  /venv/bin/python -m vfw.seeded verify $d > /tmp/wt7/verify_${p}_$x.json 2>/tmp/wt7/verify_${p}_$x.err &
done; done
wait
for p in "$@"; do for x in A B; do
  v=/tmp/wt7/verify_${p}_$x.json
  d=/tmp/wt7/$p/_seeded/$x
  [ -f $v ] || continue
  ok=$(/venv/bin/python -c "import json;print(json.load(open('$v')).get('ok'))" 2>/dev/null)
  prop=$(head -1 $d/notes.md | grep -o "C[0-9][0-9]" | head -1)
  echo "R7-$p-$x prop=$prop verify ok=$ok"
  if [ "$ok" = "True" ] && [ -n "$prop" ]; then /venv/bin/python -m vfw.seeded adopt $d --id R7-$p-$x --prop $prop --verify-json $v; fi
done; done
