"""Writes the instruction files for a round of independent seeded-change authors (sub-agents).

    python tools/make_seed_prompts.py <round-dir> theme     # round 4: one cross-cutting kind of maintenance work per author
    python tools/make_seed_prompts.py <round-dir> surface   # round 5: one slice of the public API/CLI surface per author
    python tools/make_seed_prompts.py <round-dir> gaps COV.json   # round 6: code the test suite never executes (coverage.py json report)
    python tools/make_seed_prompts.py <round-dir> property  # round 7: ONE property text per author; mechanisms that need two sites / a history / a fault point

Each author gets: the given property texts (properties.jsonl), one-line summaries of what EARLIER AUTHORS tried (taken
from their own notes, i.e. seeded/*/meta.json 'needs_to_manifest'), and a scratch worktree. Nothing about the checks.
"""
import glob
import json
import os
import subprocess
import sys

THEMES = {
    "modernise": "API modernisation and deprecation clean-ups of pandas / numpy / h5py usage (e.g. `.values` -> `.to_numpy()`, `np.r_` -> `np.concatenate`, groupby/categorical options, `astype` copies, `searchsorted` on Series vs arrays, replacing loops over `iterrows`/`items`)",
    "perf_cache": "performance work by caching / memoisation / lazy loading / avoiding re-reads of the file (per-object, per-path or module-level caches; attributes read once; reusing open handles)",
    "perf_shortcut": "performance work by vectorisation, fast paths and early exits for the 'common case' (skipping a step when input already looks sorted/unique/in-bounds, special-casing one chunk / one chromosome / one input)",
    "errors_cleanup": "error handling and resource clean-up: try/finally and context managers, temp-file handling, order of validation versus writing, which exception is raised when, what is left behind after a failure",
    "dtypes": "dtype handling: casts, int32/int64/uint overflow, float precision, NaN/inf handling, dtype inference for columns, dtype arguments forwarded between layers",
    "defaults_plumbing": "default parameter values and keyword plumbing between layers (CLI option -> API function -> internal helper), **kwargs forwarding, option precedence, flags that interact",
    "refactor": "behaviour-preserving-looking refactors: extract/inline function, rename, loop -> comprehension, reorder statements, merge or split branches, replace conditionals with dict lookups, simplify boolean expressions",
    "h5_usage": "h5py usage: attributes, dataset creation/resizing/truncation, chunk shapes, open modes (r, r+, a, w), groups, hard/soft/external links, fixed-length vs variable-length strings, enum dtypes",
    "symmetry": "symmetric-upper versus square storage: triangle handling, reflection of lower-triangle input, diagonal handling, fill-lower output, transposition in queries, storage-mode attribute",
    "coords": "coordinate conventions: zero/one-based, half-open intervals, bin edges, chromosome boundaries, last partial bin, variable-width bins, positions equal to a boundary",
    "degenerate": "empty and degenerate inputs: empty chunks/iterators, chromosomes without pixels or with one bin, a single pixel, a single chromosome, all bins masked, zero-length ranges, factor 1, one input to a merge",
    "strings": "strings, bytes and encodings: chromosome names (numeric-looking, unicode, long, with punctuation), URIs and nested group paths, region strings, numerals with separators/suffixes, JSON-encoded attributes and metadata",
    "ordering": "ordering assumptions: sort stability and sort keys, natural vs lexical order, dict/set iteration order, order of chromosomes vs order of categories, column order, order of results from workers or of inputs to a merge",
    "index_arith": "index arithmetic: searchsorted sides, offsets and cumulative sums, spans / chunk edges / block boundaries, slices with negative, None or out-of-range bounds, CSR row pointers",
    "multi_call": "state that survives a call: module-level state, mutable default arguments, in-place mutation of the caller's arguments (frames, dicts, arrays, lists), objects or generators used twice, results that alias internal buffers",
}

SURFACES = {
    "create_opts": "cooler.create_cooler / cooler.create.create / create_from_unordered and ALL their options: ordered, symmetric_upper, mode, columns, dtypes, metadata, assembly, boundscheck, triucheck, dupcheck, ensure_sorted, mergebuf, max_merge, temp_dir, delete_temp, h5opts, lock; input forms (frame, dict of arrays, iterable of chunks, dask frame, ArrayLoader and the other binners/loaders in cooler.create)",
    "cooler_class": "the cooler.Cooler object: construction from path / URI / open h5py handle / group, open(), info, attrs, chromnames, chromsizes, binsize, storage_mode, shape, offset(), extent(), chroms()/bins()/pixels() selectors (column selection, slicing, fetch, as_dict, join, convert_enum), _load_dset/_load_attrs",
    "matrix_opts": "cooler.Cooler.matrix(...) and cooler.api.matrix and ALL its options: field, balance (True / column name / False), sparse, as_pixels, join, ignore_index, divisive_weights, chunksize; indexing forms (int, slice, negative, two slices, fetch with one or two regions)",
    "cli_cload": "the `cooler cload` sub-commands (pairs, tabix, pairix, hiclib) and ALL their options: -c1/-p1/-c2/-p2, --field, --zero-based, --comment-char, --no-symmetric-upper, --input-copy-status, --chunksize, --mergebuf, --max-merge, --temp-dir, --no-delete-temp, --storage-options, --append, --metadata, --assembly, -p/--nproc, -s/--max-split, --block-char",
    "cli_load": "`cooler load` and ALL its options: -f coo/bg2, --field (numbers, dtypes), --count-as-float, --one-based, --comment-char, -N, --input-copy-status, --chunksize, --mergebuf, --temp-dir, --max-merge, --no-delete-temp, --storage-options, --append, --metadata, --assembly; BINS_PATH forms (chromsizes:binsize, BED file)",
    "cli_dump_show_info": "`cooler dump` and ALL its options (-t chroms/bins/pixels, -c columns, -H header, --na-rep, --float-format, -r, -r2, -f fill-lower, -b balanced, --join, --annotate, --one-based-ids, --one-based-starts, -k chunksize, -o out), plus `cooler info` (-f field, -m metadata), `cooler attrs`, `cooler tree`",
    "cli_reduce": "`cooler merge`, `cooler coarsen`, `cooler zoomify` and ALL their options (--field with agg/dtype, -c chunksize, -k factor, -n/-p nproc, -r resolutions grammar, --balance and --balance-args, --base-uri, -o out, --append) and the API functions behind them (merge_coolers, coarsen_cooler, zoomify_cooler with their agg / columns / dtypes / mode / mergebuf / nproc / chunksize / lock arguments)",
    "balance_all": "cooler.balance_cooler and `cooler balance` with ALL options: cis_only, trans_only, ignore_diags, mad_max, min_nnz, min_count, blacklist (BED path on the CLI), rescale_marginals, x0, tol, max_iters, chunksize, map, use_lock, store, store_name; CLI: --name, --force, --check, --stdout, --convergence-policy, -p nproc, --ignore-dist",
    "fileops_all": "cooler.fileops (cp, mv, ln with soft/hard, list_coolers, list_scool_cells, is_cooler, is_multires_file, is_scool_file, ls, tree/pprint_attr/pprint_data_tree, read_attr_tree) and the CLI commands cp, mv, ln, ls, tree, attrs; URIs with nested groups, root destinations, overwrite flags",
    "scool_rename_annotate": "cooler.create_scool (bins dict/frame, cell_name_pixels_dict, columns, dtypes, metadata, mode, chunk iterables per cell), cooler.rename_chroms, cooler.annotate (replace flag, partial bin tables, selectors), cooler.create.append",
    "util_bins": "cooler.util: binnify, digest/`cooler digest`, make_bintable/`cooler makebins` (-H header, --rel-ids), read_chromsizes (filter_chroms, name_patterns, natsort, all_names), get_binsize, get_chromsizes, check_bins, GenomeSegmentation, bedslice, asarray_or_dataset, mad, cmd_exists, partition, parse_cooler_uri, parse_region, parse_humanized, natsorted/argnatsort",
    "parallel_lock": "cooler.parallel (split, MultiplexDataPipe: prepare/pipe/run/gather/reduce, partition, chunkgetter, lock usage) and every place a `map` or `lock` argument is accepted (balance_cooler, coarsen_cooler, zoomify_cooler, create with lock=) including multiprocess pools with map / imap / imap_unordered",
}

# round 6: groups of files; each author is told which lines and branches the existing test suite never executes
GAP_GROUPS = {
    "gap_ingest": ["cooler/create/_ingest.py"],
    "gap_create": ["cooler/create/_create.py"],
    "gap_cload": ["cooler/cli/cload.py"],
    "gap_rangequery_api": ["cooler/core/_rangequery.py", "cooler/api.py", "cooler/core/_tableops.py", "cooler/core/_selectors.py"],
    "gap_cliutil_load": ["cooler/cli/_util.py", "cooler/cli/load.py"],
    "gap_reduce_balance": ["cooler/_reduce.py", "cooler/_balance.py", "cooler/parallel.py"],
    "gap_fileops_zoomify": ["cooler/fileops.py", "cooler/cli/zoomify.py", "cooler/cli/fileops.py"],
    "gap_cli_rest_util": ["cooler/cli/dump.py", "cooler/cli/balance.py", "cooler/cli/digest.py", "cooler/cli/makebins.py",
                          "cooler/cli/merge.py", "cooler/cli/info.py", "cooler/util.py"],
}


def _ranges(nums):
    out, start, prev = [], None, None
    for n in sorted(nums):
        if start is None:
            start = prev = n
        elif n == prev + 1:
            prev = n
        else:
            out.append(f"{start}-{prev}" if prev > start else str(start))
            start = prev = n
    if start is not None:
        out.append(f"{start}-{prev}" if prev > start else str(start))
    return ", ".join(out)


def gap_assignment(files, cov):
    lines = []
    for f in files:
        key = next(k for k in cov["files"] if k.endswith(f))
        v = cov["files"][key]
        br = sorted({int(a) for a, b in v.get("missing_branches", [])})
        lines.append(f"  src/{f}: never executed lines: {_ranges(v['missing_lines']) or 'none'}; "
                     f"conditions of which one outcome is never taken, at lines: {_ranges(br) or 'none'}")
    return ("CODE THE EXISTING TESTS NEVER EXERCISE. A coverage run of the test suite (line + branch) reports for your files:\n"
            + "\n".join(lines) + "\nAny edit inside never-executed code passes the suite trivially, so concentrate on making it a change "
            "that a maintainer would plausibly commit and that breaks a property for the inputs, options or states that reach that code "
            "(work out what reaches it). The main edit of each change must sit on (or decide) one of the listed lines/branches.")


SURFACE_LINE = "a SLICE OF THE PUBLIC SURFACE rather than a file: {theme}.\nRead the documentation strings and the code behind these entry points, list their options and argument forms, and look for options, option COMBINATIONS and argument forms that the tests never exercise; a maintainer touching the code behind them could plausibly slip there."

TMPL = '''You are helping to evaluate a verification effort for the open-source Python library open2c/cooler (HDF5-based sparse genomic contact matrices). Your job is to play the role of a developer who introduces a SUBTLE BUG.

You have your own scratch git worktree of the repository at {wt} (a checkout of the current HEAD). Work ONLY inside that directory. Do NOT read, list or modify anything under /verif, and do NOT modify /repo itself. The library is pure Python; to run anything against your modified copy you MUST put its sources first on the path: `PYTHONPATH={wt}/src /venv/bin/python ...` (without this, Python imports the unmodified /repo/src). Verify with `PYTHONPATH={wt}/src /venv/bin/python -c "import cooler; print(cooler.__file__)"`.

The library is supposed to satisfy the following twenty properties:

{plist}

YOUR ASSIGNMENT is {assignment}
Produce TWO independent source changes, "A" and "B", in DIFFERENT functions (preferably different files), each of which:
 1. breaks at least one of the twenty properties above (say which one in notes.md: first line must be `PROPERTY: Cxx`),
 2. still imports/compiles and still PASSES the existing test suite: `mkdir -p {wt}_tmp && cd {wt} && TMPDIR={wt}_tmp PYTHONPATH={wt}/src /venv/bin/python -m pytest -q -p no:cacheprovider --no-cov --deselect "tests/test_create.py::test_roundtrip"` (about 40 s; the private TMPDIR matters because a few tests write fixed file names under the temp directory and other agents run concurrently; test_roundtrip fails before any change and is to be ignored),
 3. needs something SPECIFIC to manifest - an unusual but valid input, a particular chunk boundary / chunk size / ordering, a multi-step sequence of operations or a second call on the same object, a fault at a particular point, a particular option combination or entry point, or two cooperating code sites that each look fine alone - i.e. NOT something that any ordinary use would expose immediately. It must look like an honest maintenance commit (with a plausible commit-message-style comment), not sabotage such as `if x == 12345`. Do not weaken or edit the tests. Keep each change small.

The following ideas have ALREADY been used by earlier developers - do NOT repeat them or close variants (same function + same mechanism); find something else, preferably in code none of them touched:
{prior}

DELIVERABLES. For each change X in {{A, B}} create the directory {wt}/_seeded/X containing:
 - patch.diff : unified diff relative to HEAD (`git -C {wt} diff -- src > ...` while ONLY change X is applied; `git apply patch.diff` on a clean checkout must reproduce it; the _seeded directory must not be part of the diff),
 - demo.py : a small self-contained program (tempfile for scratch files; no network; only packages installed in /venv) that exercises the library through its public API or command line and exits with status 1 (printing what went wrong) against the changed sources and 0 against the unchanged sources. It must decide by checking the PROPERTY against an independently computed expectation, not by looking at the source code,
 - notes.md : first line `PROPERTY: Cxx`, then 5-10 lines: what the change is, why the existing tests do not notice, and exactly what is needed for it to manifest.
Workflow: make change A, run the suite, write and run the demo (must exit 1), save the diff, `git -C {wt} checkout -- src`, confirm demo A exits 0 on clean sources; then the same for B. Leave src/ CLEAN at the end. Do not spend more than about 45 minutes.

When done, reply with a short summary: for A and B the property broken, function changed, one-line idea, what is needed to manifest, and confirmation that (i) the suite passed with the change, (ii) demo.py exits 1 with the change and 0 without.'''


PROPERTY_LINE = """the single property above. Read the code that implements it (and its callers, the command-line front ends and the helpers it shares with other features) and find places where a plausible maintenance edit silently breaks it. This round asks for mechanisms of the following kinds, in this order of preference:
 (a) TWO COOPERATING SITES: two small edits in different functions (or one edit whose effect only shows through another, unchanged, function) that each look fine alone;
 (b) a HISTORY: the break only shows after a particular sequence of operations (create, then append/rename/re-create/merge/copy, then read), on the second use of an object, or on the second call in a process;
 (c) a FAULT or BOUNDARY POINT: an exception, an interruption, an empty or final chunk, a block/chunk/buffer edge at one particular position;
 (d) an unusual but valid INPUT SHAPE or OPTION COMBINATION that no ordinary use has;
 (e) an unusual but valid ARGUMENT TYPE: pandas nullable / unsigned / 32-bit integer columns, categoricals with unused categories, read-only or non-contiguous numpy arrays, numpy scalars where Python ints are usual, pathlib.Path or bytes where str is usual, tuples vs lists, open h5py handles or groups where a path is usual, generators vs lists."""


def property_round(root, here, props):
    """round 7: each author sees exactly one property text (statement + what it quantifies over) and earlier authors' ideas for THAT property"""
    os.makedirs(os.path.join(root, "prompts"), exist_ok=True)
    for p in props:
        prior = []
        for d in sorted(glob.glob(os.path.join(here, "seeded", "*", "meta.json"))):
            m = json.load(open(d))
            if m["property"] != p["id"]:
                continue
            lines = [l.strip() for l in m["needs_to_manifest"].splitlines() if l.strip() and not l.startswith("#")]
            prior.append("- " + " ".join(lines)[:240])
        wt = os.path.join(root, p["id"])
        if not os.path.exists(wt):
            subprocess.run(["git", "-C", "/repo", "worktree", "add", "-q", "--detach", wt, "HEAD"], check=True)
        q = p.get("quantifier")
        plist = f"{p['id']} ({p['title']}): {p['statement']}" + (f"\nIt is meant to hold for: {json.dumps(q)}" if q else "")
        text = TMPL.format(wt=wt, plist=plist, assignment=PROPERTY_LINE, prior="\n".join(prior) or "(none)")
        text = text.replace("The library is supposed to satisfy the following twenty properties:", "The library is supposed to satisfy the following property:")
        text = text.replace("breaks at least one of the twenty properties above (say which one in notes.md: first line must be `PROPERTY: Cxx`)",
                            f"breaks the property above (first line of notes.md must be `PROPERTY: {p['id']}`)")
        with open(os.path.join(root, "prompts", p["id"] + ".txt"), "w") as f:
            f.write(text)
    print(len(props), "prompts in", os.path.join(root, "prompts"))


def main():
    root = sys.argv[1]
    here = os.path.dirname(os.path.dirname(os.path.abspath(__file__)))
    props = [json.loads(l) for l in open(os.path.join(here, "properties.jsonl"))]
    plist = "\n".join(f"{p['id']} ({p['title']}): {p['statement']}" for p in props)
    prior = []
    for d in sorted(glob.glob(os.path.join(here, "seeded", "*", "meta.json"))):
        m = json.load(open(d))
        lines = [l.strip() for l in m["needs_to_manifest"].splitlines() if l.strip() and not l.startswith("#")]
        prior.append(f"- ({m['property']}) " + " ".join(lines)[:200])
    os.makedirs(os.path.join(root, "prompts"), exist_ok=True)
    mode = sys.argv[2] if len(sys.argv) > 2 else "theme"
    if mode == "property":
        return property_round(root, here, props)
    table = THEMES if mode == "theme" else SURFACES if mode == "surface" else GAP_GROUPS
    cov = json.load(open(sys.argv[3])) if mode == "gaps" else None
    for k, theme in table.items():
        if mode == "theme":
            assignment = ("a KIND OF WORK rather than a file: " + theme + ".\nRead through src/cooler (library and cli/) looking for "
                          "places where a maintainer doing that kind of work could plausibly slip.")
        elif mode == "surface":
            assignment = SURFACE_LINE.format(theme=theme)
        else:
            assignment = gap_assignment(theme, cov)
        wt = os.path.join(root, k)
        if not os.path.exists(wt):
            subprocess.run(["git", "-C", "/repo", "worktree", "add", "-q", "--detach", wt, "HEAD"], check=True)
        with open(os.path.join(root, "prompts", k + ".txt"), "w") as f:
            f.write(TMPL.format(wt=wt, plist=plist, assignment=assignment, prior="\n".join(prior)))
    print(len(table), "prompts in", os.path.join(root, "prompts"))


if __name__ == "__main__":
    main()
