"""Writes the instruction files for a round of independent seeded-change authors (sub-agents).

    python tools/make_seed_prompts.py <round-dir> theme   # round 4: one cross-cutting theme per author

Each author gets: the given property texts (properties.jsonl), one-line summaries of what EARLIER AUTHORS tried (taken
from their own notes, i.e. seeded/*/meta.json 'needs_to_manifest'), and a scratch worktree. Nothing about the checks.
"""
import glob
import json
import os
import subprocess
import sys

THEMES = {
    "modernise": "API modernisation and deprecation clean-ups of pandas / numpy / h5py usage (e.g. `.values` -> `.to_numpy()`, `np.r_` -> `np.concatenate`, groupby/categorical options, `astype` copies, `searchsorted` on Series vs arrays, replacing loops over `iterrows`/`items`)",
    "perf_cache": "performance work by caching / memoisation / lazy loading / avoiding re-reads of the file (per-object, per-path or module-level caches; attributes read once; reusing open handles)",
    "perf_shortcut": "performance work by vectorisation, fast paths and early exits for the 'common case' (skipping a step when input already looks sorted/unique/in-bounds, special-casing one chunk / one chromosome / one input)",
    "errors_cleanup": "error handling and resource clean-up: try/finally and context managers, temp-file handling, order of validation versus writing, which exception is raised when, what is left behind after a failure",
    "dtypes": "dtype handling: casts, int32/int64/uint overflow, float precision, NaN/inf handling, dtype inference for columns, dtype arguments forwarded between layers",
    "defaults_plumbing": "default parameter values and keyword plumbing between layers (CLI option -> API function -> internal helper), **kwargs forwarding, option precedence, flags that interact",
    "refactor": "behaviour-preserving-looking refactors: extract/inline function, rename, loop -> comprehension, reorder statements, merge or split branches, replace conditionals with dict lookups, simplify boolean expressions",
    "h5_usage": "h5py usage: attributes, dataset creation/resizing/truncation, chunk shapes, open modes (r, r+, a, w), groups, hard/soft/external links, fixed-length vs variable-length strings, enum dtypes",
    "symmetry": "symmetric-upper versus square storage: triangle handling, reflection of lower-triangle input, diagonal handling, fill-lower output, transposition in queries, storage-mode attribute",
    "coords": "coordinate conventions: zero/one-based, half-open intervals, bin edges, chromosome boundaries, last partial bin, variable-width bins, positions equal to a boundary",
    "degenerate": "empty and degenerate inputs: empty chunks/iterators, chromosomes without pixels or with one bin, a single pixel, a single chromosome, all bins masked, zero-length ranges, factor 1, one input to a merge",
    "strings": "strings, bytes and encodings: chromosome names (numeric-looking, unicode, long, with punctuation), URIs and nested group paths, region strings, numerals with separators/suffixes, JSON-encoded attributes and metadata",
    "ordering": "ordering assumptions: sort stability and sort keys, natural vs lexical order, dict/set iteration order, order of chromosomes vs order of categories, column order, order of results from workers or of inputs to a merge",
    "index_arith": "index arithmetic: searchsorted sides, offsets and cumulative sums, spans / chunk edges / block boundaries, slices with negative, None or out-of-range bounds, CSR row pointers",
    "multi_call": "state that survives a call: module-level state, mutable default arguments, in-place mutation of the caller's arguments (frames, dicts, arrays, lists), objects or generators used twice, results that alias internal buffers",
}

TMPL = '''You are helping to evaluate a verification effort for the open-source Python library open2c/cooler (HDF5-based sparse genomic contact matrices). Your job is to play the role of a developer who introduces a SUBTLE BUG.

You have your own scratch git worktree of the repository at {wt} (a checkout of the current HEAD). Work ONLY inside that directory. Do NOT read, list or modify anything under /verif, and do NOT modify /repo itself. The library is pure Python; to run anything against your modified copy you MUST put its sources first on the path: `PYTHONPATH={wt}/src /venv/bin/python ...` (without this, Python imports the unmodified /repo/src). Verify with `PYTHONPATH={wt}/src /venv/bin/python -c "import cooler; print(cooler.__file__)"`.

The library is supposed to satisfy the following twenty properties:

{plist}

YOUR ASSIGNMENT is a KIND OF WORK rather than a file: {theme}.
Read through src/cooler (library and cli/) looking for places where a maintainer doing that kind of work could plausibly slip. Produce TWO independent source changes, "A" and "B", in DIFFERENT functions (preferably different files), each of which:
 1. breaks at least one of the twenty properties above (say which one in notes.md: first line must be `PROPERTY: Cxx`),
 2. still imports/compiles and still PASSES the existing test suite: `mkdir -p {wt}_tmp && cd {wt} && TMPDIR={wt}_tmp PYTHONPATH={wt}/src /venv/bin/python -m pytest -q -p no:cacheprovider --no-cov --deselect "tests/test_create.py::test_roundtrip"` (about 40 s; the private TMPDIR matters because a few tests write fixed file names under the temp directory and other agents run concurrently; test_roundtrip fails before any change and is to be ignored),
 3. needs something SPECIFIC to manifest - an unusual but valid input, a particular chunk boundary / chunk size / ordering, a multi-step sequence of operations or a second call on the same object, a fault at a particular point, a particular option combination or entry point, or two cooperating code sites that each look fine alone - i.e. NOT something that any ordinary use would expose immediately. It must look like an honest commit of the assigned kind (with a plausible commit-message-style comment), not sabotage such as `if x == 12345`. Do not weaken or edit the tests. Keep each change small.

The following ideas have ALREADY been used by earlier developers - do NOT repeat them or close variants (same function + same mechanism); find something else, preferably in code none of them touched:
{prior}

DELIVERABLES. For each change X in {{A, B}} create the directory {wt}/_seeded/X containing:
 - patch.diff : unified diff relative to HEAD (`git -C {wt} diff -- src > ...` while ONLY change X is applied; `git apply patch.diff` on a clean checkout must reproduce it; the _seeded directory must not be part of the diff),
 - demo.py : a small self-contained program (tempfile for scratch files; no network; only packages installed in /venv) that exercises the library through its public API or command line and exits with status 1 (printing what went wrong) against the changed sources and 0 against the unchanged sources. It must decide by checking the PROPERTY against an independently computed expectation, not by looking at the source code,
 - notes.md : first line `PROPERTY: Cxx`, then 5-10 lines: what the change is, why the existing tests do not notice, and exactly what is needed for it to manifest.
Workflow: make change A, run the suite, write and run the demo (must exit 1), save the diff, `git -C {wt} checkout -- src`, confirm demo A exits 0 on clean sources; then the same for B. Leave src/ CLEAN at the end. Do not spend more than about 45 minutes.

When done, reply with a short summary: for A and B the property broken, function changed, one-line idea, what is needed to manifest, and confirmation that (i) the suite passed with the change, (ii) demo.py exits 1 with the change and 0 without.'''


def main():
    root = sys.argv[1]
    here = os.path.dirname(os.path.dirname(os.path.abspath(__file__)))
    props = [json.loads(l) for l in open(os.path.join(here, "properties.jsonl"))]
    plist = "\n".join(f"{p['id']} ({p['title']}): {p['statement']}" for p in props)
    prior = []
    for d in sorted(glob.glob(os.path.join(here, "seeded", "*", "meta.json"))):
        m = json.load(open(d))
        lines = [l.strip() for l in m["needs_to_manifest"].splitlines() if l.strip() and not l.startswith("#")]
        prior.append(f"- ({m['property']}) " + " ".join(lines)[:200])
    os.makedirs(os.path.join(root, "prompts"), exist_ok=True)
    for k, theme in THEMES.items():
        wt = os.path.join(root, k)
        if not os.path.exists(wt):
            subprocess.run(["git", "-C", "/repo", "worktree", "add", "-q", "--detach", wt, "HEAD"], check=True)
        with open(os.path.join(root, "prompts", k + ".txt"), "w") as f:
            f.write(TMPL.format(wt=wt, plist=plist, theme=theme, prior="\n".join(prior)))
    print(len(THEMES), "prompts in", os.path.join(root, "prompts"))


if __name__ == "__main__":
    main()
