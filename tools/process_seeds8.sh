#!/bin/bash
# round 8 (one property per author; two sites, histories, fault points): /tmp/wt8/<file>/_seeded/{A,B}; property from the first line of notes.md; adopted as R8-<file>-<X>
cd /verif
for p in "$@"; do for x in A B; do
  d=/tmp/wt8/$p/_seeded/$x
  [ -f $d/patch.diff ] || { echo "missing $d"; continue; }
  [ -f /tmp/wt8/verify_${p}_$x.json ] && continue
  /venv/bin/python -m vfw.seeded verify $d > /tmp/wt8/verify_${p}_$x.json 2>/tmp/wt8/verify_${p}_$x.err &
done; done
wait
for p in "$@"; do for x in A B; do
  v=/tmp/wt8/verify_${p}_$x.json
  d=/tmp/wt8/$p/_seeded/$x
  [ -f $v ] || continue
  ok=$(/venv/bin/python -c "import json;print(json.load(open('$v')).get('ok'))" 2>/dev/null)
  prop=$(head -1 $d/notes.md | grep -o "C[0-9][0-9]" | head -1)
  echo "R8-$p-$x prop=$prop verify ok=$ok"
  if [ "$ok" = "True" ] && [ -n "$prop" ]; then /venv/bin/python -m vfw.seeded adopt $d --id R8-$p-$x --prop $prop --verify-json $v; fi
done; done
